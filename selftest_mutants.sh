#!/bin/bash
# selftest_mutants.sh [pattern] : applies every mutants/<Cnn>-*.patch (and seeded/*/patch(.rebased).diff with "seeded" as pattern)
# to a scratch copy of /repo, runs petl's own suite on it and the matching quick check, and reports whether the check fired.
# A mutant the check misses is printed as MISSED; exit status 1 if any was missed.  Never touches /repo.
cd "$(dirname "$0")" || exit 2
PAT=${1:-}
MISSED=0
run_one() {
  P=$(realpath "$1"); PROP=$2
  D=$(mktemp -d /tmp/petlmon-st-XXXXXX)
  rsync -a --exclude .git --exclude tmp --exclude __pycache__ /repo/ "$D/repo/"
  if ! ( cd "$D/repo" && patch -p1 -s --no-backup-if-mismatch < "$P" ) >/dev/null 2>&1; then echo "PATCH-FAILED $P"; rm -rf "$D"; return 0; fi
  SUITE=$( cd "$D/repo" && /venv/bin/python -m pytest -q -p no:cacheprovider --timeout=900 -x 2>&1 | tail -1 | cut -c1-40 )
  mkdir -p "$D/ev"
  OUT=$(PETL_VERIF_REPO="$D/repo" PETL_VERIF_EVIDENCE_DIR="$D/ev" ./check "$PROP" quick 2>&1); RC=$?
  KIND=$(echo "$OUT" | grep -o "'kind': '[^']*'" | head -1)
  if [ $RC -eq 1 ]; then echo "caught  $PROP $(basename $(dirname $P))/$(basename $P)  [suite: $SUITE]  $KIND"; else echo "MISSED  $PROP $P rc=$RC [suite: $SUITE]"; fi
  rm -rf "$D"
  [ $RC -eq 1 ]
}
LIST=$(mktemp)
if [ "$PAT" = "seeded" ]; then
  # seeds whose meta.json says "not_caught" (with the reason: outside the property as stated) are listed, not run
  for d in seeded/*/; do n=$(basename $d); grep -q '"not_caught"' $d/meta.json && { echo "not-claimed $n (see its meta.json)"; continue; }; p=$d/patch.diff; [ -f $d/patch.rebased.diff ] && p=$d/patch.rebased.diff; echo "$p ${n%%-*}"; done | grep -v "^not-claimed" > $LIST
else
  for p in mutants/*${PAT}*.patch; do n=$(basename $p); echo "$p ${n%%-*}"; done > $LIST
fi
export -f run_one
cat $LIST | xargs -P 4 -L 1 bash -c 'run_one $0 $1' | tee /tmp/selftest.out
rm -f $LIST
grep -q "^MISSED" /tmp/selftest.out && exit 1
exit 0
