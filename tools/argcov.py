#!/venv/bin/python
"""tools/argcov.py [evidence dir]: which documented keyword arguments of the public petl functions were never passed by any
check (from the ArgLedger section of the evidence files).  A to-do list for widening the workloads, not a verdict."""
import glob
import inspect
import json
import os
import sys

sys.path.insert(0, os.environ.get('PETL_VERIF_REPO', '/repo'))
import petl  # noqa: E402

evdir = sys.argv[1] if len(sys.argv) > 1 else os.path.join(os.path.dirname(os.path.dirname(os.path.abspath(__file__))), 'evidence')
calls, kws, who = {}, {}, {}
for f in sorted(glob.glob(os.path.join(evdir, 'C*.json'))):
    d = json.load(open(f))
    for fn, v in d['coverage'].get('petl_calls_by_function', {}).items():
        calls[fn] = calls.get(fn, 0) + v['calls']
        who.setdefault(fn, []).append(d['property_id'])
        for k, n in v['keyword_arguments'].items():
            kws.setdefault(fn, {})[k] = kws.get(fn, {}).get(k, 0) + n
SKIP_MODULES = ('io.xls', 'io.xlsx', 'io.avro', 'io.bcolz', 'io.pytables', 'io.whoosh', 'io.numpy', 'io.pandas', 'io.gsheet', 'io.remotes',
                'transform.intervals', 'io.xml')
never_called, never_kw = [], []
for name in sorted(dir(petl)):
    fn = getattr(petl, name)
    if name.startswith('_') or not inspect.isfunction(fn) or not fn.__module__.startswith('petl.'):
        continue
    if any(m in fn.__module__ for m in SKIP_MODULES):
        continue
    if name not in calls:
        never_called.append('%s (%s)' % (name, fn.__module__))
        continue
    try:
        sig = inspect.signature(fn)
    except (TypeError, ValueError):
        continue
    for p in sig.parameters.values():
        if p.default is not inspect.Parameter.empty and p.name not in kws.get(name, {}):
            never_kw.append('%s(%s=)  [called by %s]' % (name, p.name, ','.join(who[name])))
print('functions never called by a check: %d' % len(never_called))
for x in never_called:
    print('   ' + x)
print('keyword parameters never passed by keyword: %d' % len(never_kw))
for x in never_kw:
    print('   ' + x)

# ---- argument forms: for the parameters that select fields / keys / positions, which forms were used
print()
print('forms used for field / key / position parameters (str = a name, int:0 = index 0, ...):')
FIELDISH = ('key', 'lkey', 'rkey', 'field', 'fields', 'value', 'variables', 'index', 'include', 'exclude', 'source_field', 'f1', 'f2', 'f3',
            'n', 'start', 'stop', 'step', 'period', 'buffersize', 'sample', 'samplesize', 'limit', 'header', 'missing')
forms = {}
for f in sorted(glob.glob(os.path.join(evdir, 'C*.json'))):
    d = json.load(open(f))
    for fn, v in d['coverage'].get('petl_calls_by_function', {}).items():
        for p, shapes in v.get('argument_forms', {}).items():
            forms.setdefault((fn, p), set()).update(shapes)
for (fn, p), shapes in sorted(forms.items()):
    if p in FIELDISH:
        print('   %s(%s): %s' % (fn, p, ', '.join(sorted(shapes))))
