#!/bin/bash
# tools/sweep.sh <tier> <seed...> : run every check for the given seeds, print one line per run
cd "$(dirname "$0")/.."
TIER=$1; shift
for SEED in "$@"; do
  for P in C01 C02 C03 C04 C05 C06 C07 C08 C09 C10 C11 C12 C13 C14 C15 C16 C17 C18 C19 C20; do
    OUT=$(VERIF_SEED=$SEED PETL_VERIF_EVIDENCE_DIR=${SWEEP_EVIDENCE:-/tmp/sweep-ev} ./check $P $TIER 2>&1); RC=$?
    echo "seed=$SEED $P rc=$RC $(echo "$OUT" | head -1)"
    if [ $RC -ne 0 ]; then echo "$OUT" | grep -E "^(VIOLATION|INCONCLUSIVE|   )" | head -6 | cut -c1-500; fi
  done
done
