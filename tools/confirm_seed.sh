#!/bin/bash
# tools/confirm_seed.sh <seed dir> <property id> [check-patch]
#   confirms a seeded change independently: in a scratch checkout of the commit the patch was written against
#   (the pinned commit 28de550) the patch applies, petl's own suite still passes, the demonstration passes without
#   the change and fails with it; then runs ./check <property> quick against the *current* tree + patch
#   (check-patch = a version of the patch rebased onto the repaired tree, when the original no longer applies).
#   Prints a JSON summary line.  Never touches /repo.
set -u
SD=$(realpath "$1"); PROP=$2; CP=${3:-$SD/patch.diff}; [ -z "${3:-}" ] && [ -f "$SD/patch.rebased.diff" ] && CP=$SD/patch.rebased.diff
BASE=${SEED_BASE:-28de550}
D=$(mktemp -d /tmp/petlmon-seed-XXXXXX)
trap 'rm -rf "$D"' EXIT
mkdir -p "$D/base" && git -C /repo archive $BASE | tar -x -C "$D/base" && cp /repo/petl/version.py "$D/base/petl/version.py"
cp -r "$D/base" "$D/mut"
( cd "$D/mut" && patch -p1 -s --no-backup-if-mismatch < "$SD/patch.diff" ) ; APPLY=$?
SUITE=$( cd "$D/mut" && /venv/bin/python -m pytest -q -p no:cacheprovider --timeout=900 -x 2>&1 | tail -1 )
( cd "$D/base" && PYTHONPATH="$D/base" /venv/bin/python "$SD/demo.py" > "$D/demo_base.txt" 2>&1 ); DB=$?
( cd "$D/mut" && PYTHONPATH="$D/mut" /venv/bin/python "$SD/demo.py" > "$D/demo_mut.txt" 2>&1 ); DM=$?
CHK=$(cd "$(dirname "$0")/.." && tools/mutant.sh "$CP" "$PROP" quick 2>&1); CRC=$?
KIND=$(echo "$CHK" | grep -o "'kind': '[^']*'" | head -1)
printf '{"seed": "%s", "property": "%s", "patch_applies_to_pinned_commit": %s, "suite_with_change": "%s", "demo_exit_without_change": %d, "demo_exit_with_change": %d, "check_exit_on_current_tree_plus_change": %d, "first_violation": "%s", "check_patch": "%s"}\n' \
  "$(basename $(dirname $SD))/$(basename $SD)" "$PROP" "$([ $APPLY -eq 0 ] && echo true || echo false)" "$SUITE" $DB $DM $CRC "$(echo $KIND | tr -d '"')" "$(basename $CP)"
