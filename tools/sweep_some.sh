#!/bin/bash
# tools/sweep_some.sh <tier> <seed> <property...> : like sweep.sh for a subset of the checks
cd "$(dirname "$0")/.."
TIER=$1; SEED=$2; shift; shift
for P in "$@"; do
  OUT=$(VERIF_SEED=$SEED PETL_VERIF_EVIDENCE_DIR=${SWEEP_EVIDENCE:-/tmp/sweep-ev-$$} ./check $P $TIER 2>&1); RC=$?
  echo "seed=$SEED $P rc=$RC $(echo "$OUT" | head -1)"
  if [ $RC -ne 0 ]; then echo "$OUT" | grep -E "^(VIOLATION|INCONCLUSIVE|   )" | head -6 | cut -c1-500; fi
done
