#!/venv/bin/python
"""tools/mksignatures.py > petlmon/signatures.json
   the documented call signatures of the functions in the `petl` namespace, taken from the tree the checks were written against
   (run on the unchanged /repo): for every function its positional-or-keyword parameters in order, and the literal defaults.
   The argument ledger uses it to turn keyword calls into the positional form a caller following the documentation would write."""
import ast
import inspect
import json
import sys
sys.path.insert(0, sys.argv[1] if len(sys.argv) > 1 else '/repo')
import petl  # noqa: E402

out = {}
for name, fn in sorted(vars(petl).items()):
    if name.startswith('_') or not inspect.isfunction(fn) or not getattr(fn, '__module__', '').startswith('petl.'):
        continue
    try:
        sig = inspect.signature(fn)
    except (TypeError, ValueError):
        continue
    params, defaults, varargs = [], {}, False
    for p in sig.parameters.values():
        if p.kind == p.VAR_POSITIONAL:
            varargs = True
        if p.kind != p.POSITIONAL_OR_KEYWORD:
            continue
        params.append(p.name)
        if p.default is not p.empty:
            r = repr(p.default)
            try:
                if ast.literal_eval(r) == p.default and type(ast.literal_eval(r)) is type(p.default):
                    defaults[p.name] = r
            except (ValueError, SyntaxError):
                pass
    out[name] = {'params': params, 'defaults': defaults, 'varargs': varargs}
json.dump(out, sys.stdout, indent=0, sort_keys=True)
