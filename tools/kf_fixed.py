#!/venv/bin/python
"""tools/kf_fixed.py <property> <commit> <what failed>  : record a repaired defect in known_findings.json"""
import json, sys, os
p = os.path.join(os.path.dirname(os.path.dirname(os.path.abspath(__file__))), 'known_findings.json')
d = json.load(open(p))
d['fixed'].append('fixed: property=%s %s %s' % (sys.argv[1], sys.argv[2], sys.argv[3]))
json.dump(d, open(p, 'w'), indent=1)
