#!/bin/bash
# tools/mutsweep_all.sh [max per property] [seed] : mutation analysis of all twenty checks, two properties at a time
cd "$(dirname "$0")/.." || exit 2
MAX=${1:-60}; SEED=${2:-0}
mkdir -p mutsweep
run() { /venv/bin/python tools/mutsweep.py "$1" --max "$MAX" --jobs 3 --seed "$SEED" > "mutsweep/$1-seed$SEED.log" 2>&1; tail -1 "mutsweep/$1-seed$SEED.log"; }
for pair in "C19 C12" "C13 C20" "C03 C16" "C15 C17" "C07 C02" "C14 C18" "C01 C06" "C11 C05" "C09 C04" "C08 C10"; do
  set -- $pair
  run "$1" & run "$2" & wait
done
