#!/venv/bin/python
"""tools/mutsweep_report.py [files...] : summary of the mutation sweeps in mutsweep/*.jsonl and the edits that no check caught"""
import collections
import glob
import json
import os
import sys
V = os.path.dirname(os.path.dirname(os.path.abspath(__file__)))
files = sys.argv[1:] or sorted(glob.glob(os.path.join(V, 'mutsweep', '*.jsonl')))
tot = collections.Counter()
for f in files:
    rs = [json.loads(l) for l in open(f)]
    c = collections.Counter(r['status'] for r in rs)
    tot.update(c)
    print('%-18s %s' % (os.path.basename(f), dict(c)))
    for r in rs:
        if r['status'] in ('SURVIVED-THE-CHECK', 'check-inconclusive', 'check-timeout'):
            print('     %-20s %s:%d  %s   |   %s  ->  %s' % (r['status'], r['file'], r['line'], r['operator'], r['old'][:70], r['new'][:70]))
print('TOTAL', dict(tot))
