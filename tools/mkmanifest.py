#!/venv/bin/python
"""Regenerates MANIFEST.json from the list of built checks (petlmon/checks/cNN.py present
and listed in BUILT below).  Run from /verif:  /venv/bin/python tools/mkmanifest.py"""
import json
import os
import sys

VERIF = os.path.dirname(os.path.dirname(os.path.abspath(__file__)))
sys.path.insert(0, VERIF)

TEXT = {
    'C01': ('exploration', 'twin-oracle schedule driver: iterator interleavings vs a solo pass of an identical fresh view',
            'Runs every catalogue view under directed, bounded-exhaustive and random interleavings of next()/abandon on 2-3 live iterators followed by fresh passes; each iterator must return a prefix of the solo sequence of a freshly built twin. Held = on the schedules executed; the schedule space of one thread is exactly the interleavings of next() calls.',
            'single-threaded cooperative schedules only (petl has no threads); sources of 0-4 rows; twin views are deterministic (checked as a precondition)'),
    'C02': ('exploration', 'row-pull counters on instrumented sources (construction = 0 data pulls; k rows cost the same on 100 and 10000 row sources)',
            'Counts iter()/header/data pulls of instrumented sources at construction and after k output rows for every catalogue constructor, streaming operator, extractor (byte counters) and random compositions; oracle is the minimal prefix found by running the real operator on growing prefixes.',
            'operators are classified streaming / non-streaming by the catalogue from the property text; byte budget for extractors is one I/O buffer'),
    'C03': ('exploration', 'mutation guards (list/dict subclasses logging every mutating call with its stack) + deep snapshots + yield ledger',
            'Every source container, header, row and mutable cell is a guarded object; any mutating call during full or partial evaluation of any catalogue operator is an event; rows already yielded are compared at the end with copies taken at yield time.',
            'mutable cell types generated are list and dict; guard self-test must fire at start of every run'),
    'C04': ('exploration', 'offline law checker over wrapped values (pairs exhaustive, triples) + online ComparableSpy on every comparison petl performs, against an independent ordering model',
            'Exhaustive pairs and (thorough: exhaustive) triples over a ~60 value pool plus random nestings for irreflexivity, asymmetry, transitivity, totality, derived-operator consistency and agreement with a reference ordering written from the property text; while sort/join/selector/issorted workloads run, each comparison petl actually makes is checked online, and the operators outputs are checked against the model.',
            'values outside the listed domain (NaN, sets, dicts, user classes) are not generated'),
    'C05': ('exploration', 'independent stable reference sort; every buffersize 1..nrows+2 x cache x tempdir x 2 passes per table; temp-file audit classifies in-memory vs chunked',
            'Each generated table is sorted under every buffersize, cache flag, tempdir, config default and two passes and compared as a sequence with a stable reference sort built on an independent ordering model (unique row ids make stability observable); mergesort is compared with the reference and with sort(cat(...)).',
            'CPython list.sort stable; reference ordering model follows C04 text; tables of 0-8 rows'),
    'C06': ('exploration', 'nested-loop reference join on squared-up inputs; exhaustion-mode tally of the merge loop',
            'Header, multiset of rows and key grouping order of join/leftjoin/rightjoin/outerjoin/lookupjoin/antijoin/crossjoin vs a nested-loop reference over generated table pairs (None, mixed-type, compound keys, ragged rows, empty sides, prefixes, missing); thorough adds exhaustive key columns of length <= 3 over {None,1,2}.',
            'sides of 0-5 rows; equality of keys is == on the squared-up key tuple'),
    'C07': ('exploration', 'differential: hash joins vs merge joins vs reference; streamed-side order via unique row ids; lookup dictionaries vs dict-of-lists model; pull counters for cached build side',
            'hash* operators are compared with their sort-merge counterparts and the reference join, emission order is checked against the streamed side using unique row ids, second passes with cache on/off (build side edited in between, pulls counted), and lookup/lookupone/dict*/record* against a reference including strict DuplicateKeyError.',
            'hashable key values only (as the property states)'),
    'C08': ('exploration', 'collections.Counter multiset algebra as reference; hash vs merge variants; reassembly law',
            'complement/intersection/diff/recordcomplement/recorddiff/hashcomplement/hashintersection vs Counter arithmetic on generated rectangular tables with heavy duplication, strict on/off, presorted, permuted headers; thorough enumerates all pairs of multisets of size <= 3 over 3 rows.',
            'rectangular tables (property domain)'),
    'C09': ('exploration', 'recording aggregators (exactly-once delivery of unique row ids to groups) + dictionary reference grouping',
            'The aggregation functions handed to petl log exactly which rows they received; conservation (each row id in exactly one group, one group per model-distinct key, ascending, input order inside) is checked on the log, values against a reference grouping, across buffersize/presorted.',
            'reference ordering model; tables 0-8 rows'),
    'C10': ('exploration', 'Counter of key multiplicities as reference; all run-length compositions',
            'duplicates/unique/distinct/conflicts/isunique vs multiplicities on generated tables; thorough enumerates all compositions of n <= 7 into run lengths.',
            'rectangular tables (property domain)'),
    'C11': ('exploration', 'twin oracle (default-argument call) over the full cross operator x buffersize x cache x tempdir x presorted; editable counting sources for cache histories',
            'For every sort-backed operator and generated input the output sequence under every strategy setting is compared with the default call; histories of (edit source, full/partial pass) steps check the cache clause with pull counters.',
            'inputs presorted with the reference sort'),
    'C12': ('exploration', 'cell-by-cell reference implementations written from the docstrings',
            'Each field/row transform and accessor, in each argument form, is compared with a direct reference on generated tables incl. ragged rows and duplicate field names where documented; frame condition for undocumented-but-tolerant cases.',
            'two oracle strengths for ragged rows as laid out in DESIGN C12'),
    'C13': ('exploration', 'documented predicates evaluated under the reference ordering; exactly-once partition on unique row ids; islice reference',
            'Every selector x reference value x table is compared with the filtered input; selection/complement partitions are checked on row ids; slices against itertools.islice.',
            'predicates as documented in the docstrings'),
    'C14': ('exploration', 'round-trip identities and dictionary references for reshape operators',
            'recast(melt), transpose involution, unflatten(flatten), pivot vs dict reference, unpack/unpackdict/capture/split/splitdown vs references, fromdicts(dicts), fromcolumns(columns) on generated rectangular tables with unique keys.',
            'domain as stated by the property'),
    'C15': ('exploration', 'write/read round trips through real files with differential stdlib-csv oracle; append vs concatenation bytes',
            'to*/from* round trips over cell alphabets with delimiters, quotes, CR/LF/NUL, non-ASCII x encodings x dialects x source kinds x header flags x append sequences; csv dialects judged differentially against the stdlib csv module in memory.',
            'stdlib csv/pickle/json/gzip/bz2 behave as documented'),
    'C16': ('exploration', 'differential: tee*/pass-through rows vs wrapped table; tee target bytes vs to* bytes',
            'Rows of tee*/progress/clock/cache/wrap vs the wrapped table, and bytes of consumed tee targets vs to* with the same arguments, over tables incl. ragged/header-only and argument combinations; cache with size limits over three passes.',
            'MemorySource and path targets'),
    'C17': ('fault_enumeration', 'FailingSource at every row index x handle kind x commit flag; sqlite statement trace; state oracle through a fresh connection',
            'Enumerates prior contents x new table x every fail point x four handle kinds x commit x todb/appenddb on sqlite3; after control returns a fresh connection must see the model state, and no COMMIT may follow the load statements of a failing load.',
            'sqlite3 only; a fresh connection observes committed state only'),
    'C18': ('fault_enumeration', 'temp-file audit hook (mkstemp/unlink ledger) + private tempdir listing at quiescent points over enumerated iterator/release/failure histories',
            'Histories of up to 3 iterators abandoned at every point, release orders, source failures and passes over sort, sort-backed operators and fromdicts(generator); leak = live files after release+gc; too-early = a still-referenced iterator fails or deviates from its twin.',
            'reference counting plus gc.collect() reaches quiescence'),
    'C19': ('fault_enumeration', 'probe converters raising at every subset of positions; three policies x argument/config; row-at-a-time pull locates where the exception surfaces',
            'All subsets of failing rows (n <= 4, thorough 6) x failing fields x policies x argument vs config default x errorvalue for convert (all forms), fieldmap, rowmap, rowmapmany against a reference of the documented policy.',
            'private exception type identifies the converter failure'),
    'C20': ('exploration', 'catalogue sweep: every operator x every position subset made header-only, against reference models / generic zero-row rule',
            'Every catalogue entry with every non-empty subset of inputs header-only, several header shapes, default and buffersize=1/cache=False; any exception or output other than the definition for zero rows is a violation.',
            'operators whose third-party dependency is absent are outside the catalogue'),
}


def main():
    props = [json.loads(l) for l in open(os.path.join(VERIF, 'properties.jsonl'))]
    built = [p['id'] for p in props if os.path.exists(os.path.join(VERIF, 'petlmon', 'checks', p['id'].lower() + '.py'))]
    na_path = os.path.join(VERIF, 'tools', 'not_applicable.json')
    na = json.load(open(na_path)) if os.path.exists(na_path) else {}
    checks = []
    for pid in built:
        if pid in na:
            continue
        level, technique, text, note = TEXT[pid]
        checks.append({
            'property_id': pid,
            'quick_cmd': './check %s quick' % pid,
            'thorough_cmd': './check %s thorough' % pid,
            'evidence_file': 'evidence/%s.json' % pid,
            'replay_cmd_template': './check %s --replay {path}' % pid,
            'engine': 'petlmon',
            'level_claimed': {'category': level, 'text': text + ' Verdict is "held on the executions observed", never a proof.',
                              'design_ref': 'DESIGN.md section 3, %s' % pid},
            'level_note': note,
            'technique': 'runtime monitoring: ' + technique,
        })
    m = {
        'version': 1,
        'setup_cmd': './check --selfcheck',
        'hooks': {
            'guard': 'PETL_VERIF_HOOKS',
            'enable': 'no source hooks are needed: all instrumentation (instrumented sources, guards, comparison spy, audit hooks, sqlite trace) is attached from the harness process; the guard names an empty set of source commits',
            'baseline_off_cmd': 'cd /repo && /venv/bin/python -m pytest -ra -q -p no:cacheprovider --timeout=900 --continue-on-collection-errors',
            'source_commits': [],
            'add_only': True,
        },
        'engines': [{'name': 'petlmon', 'path': 'petlmon/', 'serves_properties': [c['property_id'] for c in checks],
                     'kind_free_text': 'pure-Python runtime-monitoring harness: workload generators, probes, reference-model oracles, sharded runner'}],
        'checks': checks,
        'not_applicable': [{'property_id': p['id'], 'reason': na.get(p['id'], 'check not built yet (framework under construction)')}
                           for p in props if p['id'] not in [c['property_id'] for c in checks]],
        'notes': 'See DESIGN.md. known_findings.json lists genuine petl defects recorded (open) or repaired by fix: commits (fixed).',
    }
    with open(os.path.join(VERIF, 'MANIFEST.json'), 'w') as f:
        json.dump(m, f, indent=1)
        f.write('\n')
    print('MANIFEST: %d checks, %d not claimed' % (len(checks), len(m['not_applicable'])))


if __name__ == '__main__':
    main()
