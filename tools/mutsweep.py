#!/venv/bin/python
"""tools/mutsweep.py <property id> [--max N] [--jobs J] [--seed S] [--out FILE]

Mutation analysis of one property's check.  Single-edit mutants are generated inside the functions the property is anchored in
(properties.jsonl: anchors.*.where line ranges, mapped onto the enclosing functions of the current /repo tree); each mutant lives in
its own scratch copy of /repo (never /repo itself).  A mutant that petl's own suite kills is discarded; for every *survivor* the
property's quick check is run against the scratch copy.  The report says, per survivor, whether the check caught it.  A survivor the
check does not catch is either equivalent (no observable change), outside the property, or a gap in the workload: those are listed
with their diff so that they can be read.

Nothing here decides a property; it measures the monitors (DESIGN 2.6 / 9)."""
import argparse
import ast
import hashlib
import json
import os
import random
import re
import shutil
import subprocess
import sys
import tempfile
from concurrent.futures import ThreadPoolExecutor

ALSO = []
VERIF = os.path.dirname(os.path.dirname(os.path.abspath(__file__)))
REPO = os.environ.get('PETL_VERIF_REPO', '/repo')
PY = '/venv/bin/python'

# (name, regex, replacement) applied to one source line; the first match only
OPS = [
    ('lt->le', r'(?<![<>=!])<(?![<=])', '<='), ('le->lt', r'<=', '<'), ('gt->ge', r'(?<![<>=!-])>(?![>=])', '>='), ('ge->gt', r'>=', '>'),
    ('eq->ne', r'==', '!='), ('ne->eq', r'!=', '=='), ('isnot->is', r'\bis not\b', 'is'), ('is->isnot', r'\bis\b(?! not)', 'is not'),
    ('notin->in', r'\bnot in\b', 'in'), ('and->or', r'\band\b', 'or'), ('or->and', r'\bor\b', 'and'),
    ('if-not->if', r'\bif not\b', 'if'), ('True->False', r'\bTrue\b', 'False'), ('False->True', r'\bFalse\b', 'True'),
    ('+1->-1', r'\+ 1\b', '- 1'), ('-1->+1', r'- 1\b', '+ 1'), ('drop+1', r' \+ 1\b', ''), ('drop-1', r' - 1\b', ''),
    ('[0]->[1]', r'\[0\]', '[1]'), ('[-1]->[0]', r'\[-1\]', '[0]'), ('[1:]->[:]', r'\[1:\]', '[:]'),
    ('tuple(x)->x', r'\btuple\(([A-Za-z_][A-Za-z_0-9]*)\)', r'\1'), ('list(x)->x', r'\blist\(([A-Za-z_][A-Za-z_0-9]*)\)', r'\1'),
    ('break->continue', r'\bbreak\b', 'continue'), ('continue->break', r'\bcontinue\b', 'break'),
    ('missing->None', r'(?<![A-Za-z_.=])missing(?![A-Za-z_=])', 'None'), ('reverse->not-reverse', r'reverse=reverse', 'reverse=not reverse'),
    ('cache->True', r'cache=cache', 'cache=True'), ('lkey<->rkey', r'\blkey\b', 'rkey'), ('lprefix->rprefix', r'\blprefix\b', 'rprefix'),
    ('min->max', r'\bmin\(', 'max('), ('max->min', r'\bmax\(', 'min('), ('append->insert0', r'\.append\(', '.insert(0, '),
    ('extend->noop', r'^(\s*)[A-Za-z_][A-Za-z_0-9.]*\.extend\(.*\)\s*$', r'\1pass'),
]
STMT_DROP = re.compile(r'^(\s+)(?!return\b|yield\b|raise\b|def\b|class\b|if\b|elif\b|else\b|for\b|while\b|try\b|except\b|finally\b|with\b|pass\b|break\b|continue\b|import\b|from\b|@|#|"""|\'\'\')'
                       r'([A-Za-z_][A-Za-z_0-9.\[\], ]*\s*(=|\+=)\s*.+|[A-Za-z_][A-Za-z_0-9.]*\(.*\))\s*$')


def anchored_ranges(prop):
    """{file: [(start, end)]} of the functions / classes that enclose the anchored lines"""
    props = [json.loads(l) for l in open(os.path.join(VERIF, 'properties.jsonl'))]
    p = [x for x in props if x['id'] == prop][0]
    text = json.dumps(p.get('anchors', {}))
    wanted = {}
    for m in re.finditer(r'(petl/[A-Za-z_0-9/]+\.py):([0-9,\- ]+)', text):
        f = m.group(1)
        for part in m.group(2).split(','):
            part = part.strip()
            if not part:
                continue
            a, _, b = part.partition('-')
            try:
                wanted.setdefault(f, []).append((int(a), int(b or a)))
            except ValueError:
                pass
    out = {}
    for f, spans in wanted.items():
        path = os.path.join(REPO, f)
        if not os.path.exists(path):
            continue
        tree = ast.parse(open(path).read())
        funcs = [(n.lineno, n.end_lineno) for n in ast.walk(tree) if isinstance(n, (ast.FunctionDef, ast.ClassDef))]
        keep = set()
        for a, b in spans:
            # the fix commits moved lines by a few: widen a little, then take every enclosing function
            for lo, hi in funcs:
                if lo <= b + 8 and hi >= a - 8 and hi - lo < 160:
                    keep.add((lo, hi))
        if keep:
            out[f] = sorted(keep)
    return out


def docstring_lines(path):
    tree = ast.parse(open(path).read())
    skip = set()
    for n in ast.walk(tree):
        if isinstance(n, (ast.FunctionDef, ast.ClassDef, ast.Module)) and n.body and isinstance(n.body[0], ast.Expr) and isinstance(getattr(n.body[0], 'value', None), ast.Constant) and isinstance(n.body[0].value.value, str):
            skip.update(range(n.body[0].lineno, n.body[0].end_lineno + 1))
    return skip


def candidates(prop):
    out = []
    for f, spans in sorted(anchored_ranges(prop).items()):
        path = os.path.join(REPO, f)
        lines = open(path).read().split('\n')
        skip = docstring_lines(path)
        for lo, hi in spans:
            for ln in range(lo + 1, hi + 1):
                if ln in skip or ln > len(lines):
                    continue
                src = lines[ln - 1]
                code = src.split('#')[0]
                if not code.strip() or code.strip().startswith(('def ', 'class ', '@', 'import ', 'from ')):
                    continue
                for name, pat, rep in OPS:
                    new, n = re.subn(pat, rep, code, count=1)
                    if n and new != code:
                        out.append((f, ln, name, new.rstrip()))
                if STMT_DROP.match(code):
                    out.append((f, ln, 'drop-statement', re.match(r'^(\s*)', code).group(1) + 'pass'))
    # drop duplicates and edits that do not compile
    seen, good = set(), []
    for f, ln, name, new in out:
        k = (f, ln, new)
        if k in seen:
            continue
        seen.add(k)
        good.append((f, ln, name, new))
    return good


def run_one(prop, cand, keep_dir=None):
    f, ln, name, new = cand
    d = tempfile.mkdtemp(prefix='petlmon-sweep-')
    try:
        repo = os.path.join(d, 'repo')
        subprocess.run(['rsync', '-a', '--exclude', '.git', '--exclude', 'tmp', '--exclude', '__pycache__', REPO + '/', repo + '/'], check=True)
        path = os.path.join(repo, f)
        lines = open(path).read().split('\n')
        old = lines[ln - 1]
        lines[ln - 1] = new
        open(path, 'w').write('\n'.join(lines))
        res = {'file': f, 'line': ln, 'operator': name, 'old': old.strip(), 'new': new.strip()}
        try:
            compile('\n'.join(lines), path, 'exec')
        except SyntaxError:
            res['status'] = 'does-not-compile'
            return res
        env = dict(os.environ, PYTHONDONTWRITEBYTECODE='1')
        try:
            p = subprocess.run([PY, '-m', 'pytest', '-q', '-x', '-p', 'no:cacheprovider', '--timeout=300'], cwd=repo, env=env, capture_output=True, text=True, timeout=900)
            tail = (p.stdout.strip().split('\n') or [''])[-1]
        except subprocess.TimeoutExpired:
            res['status'] = 'suite-timeout'
            return res
        if p.returncode != 0:
            res['status'] = 'killed-by-petl-suite'
            res['suite'] = tail[:120]
            return res
        ev = os.path.join(d, 'ev')
        os.makedirs(ev)
        env2 = dict(os.environ, PETL_VERIF_REPO=repo, PETL_VERIF_EVIDENCE_DIR=ev)
        try:
            c = subprocess.run([os.path.join(VERIF, 'check'), prop, 'quick'], cwd=VERIF, env=env2, capture_output=True, text=True, timeout=3600)
        except subprocess.TimeoutExpired:
            res['status'] = 'check-timeout'
            return res
        first = ''
        m = re.search(r"'kind': '[^']*'", c.stdout)
        if m:
            first = m.group(0)
        res['check_exit'] = c.returncode
        res['first_violation'] = first
        res['status'] = {0: 'SURVIVED-THE-CHECK', 1: 'caught-by-check', 2: 'check-inconclusive'}.get(c.returncode, 'check-exit-%d' % c.returncode)
        if c.returncode == 0 and ALSO:
            # not this property's business, perhaps: do the catalogue-wide checks (or any other named ones) see it?
            for other in ALSO:
                if other == prop:
                    continue
                try:
                    c2 = subprocess.run([os.path.join(VERIF, 'check'), other, 'quick'], cwd=VERIF, env=env2, capture_output=True, text=True, timeout=3600)
                except subprocess.TimeoutExpired:
                    continue
                if c2.returncode == 1:
                    m2 = re.search(r"'kind': '[^']*'", c2.stdout)
                    res['status'] = 'caught-by-another-check'
                    res['caught_by'] = other
                    res['first_violation'] = m2.group(0) if m2 else ''
                    break
        return res
    finally:
        shutil.rmtree(d, ignore_errors=True)


def main():
    ap = argparse.ArgumentParser()
    ap.add_argument('prop')
    ap.add_argument('--max', type=int, default=60)
    ap.add_argument('--jobs', type=int, default=3)
    ap.add_argument('--seed', type=int, default=0)
    ap.add_argument('--out', default=None)
    ap.add_argument('--list', action='store_true')
    ap.add_argument('--also', default='C12,C03,C20,C01,C02,C13,C14,C09,C06')
    a = ap.parse_args()
    global ALSO
    ALSO = [x for x in a.also.split(',') if x]
    cands = candidates(a.prop)
    rnd = random.Random(int(hashlib.sha1(('%s-%d' % (a.prop, a.seed)).encode()).hexdigest()[:8], 16))
    rnd.shuffle(cands)
    if a.list:
        for c in cands[:a.max]:
            print(c)
        print(len(cands), 'candidates')
        return
    chosen = cands[:a.max]
    out = a.out or os.path.join(VERIF, 'mutsweep', '%s-seed%d.jsonl' % (a.prop, a.seed))
    os.makedirs(os.path.dirname(out), exist_ok=True)
    results = []
    with ThreadPoolExecutor(max_workers=a.jobs) as ex, open(out, 'w') as fh:
        for r in ex.map(lambda c: run_one(a.prop, c), chosen):
            results.append(r)
            fh.write(json.dumps(r) + '\n')
            fh.flush()
            print('%-24s %s:%d %-18s %s %s' % (r['status'], r['file'], r['line'], r['operator'], r.get('caught_by', ''), r.get('first_violation', '')), flush=True)
    from collections import Counter
    cnt = Counter(r['status'] for r in results)
    print('SUMMARY %s: %d candidate edits in the anchored functions, %d tried: %s' % (a.prop, len(cands), len(chosen), dict(cnt)))


if __name__ == '__main__':
    main()
