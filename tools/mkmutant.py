#!/venv/bin/python
"""tools/mkmutant.py <Cnn-name> <file relative to /repo> <<< JSON [[old, new], ...]
Creates mutants/<Cnn-name>.patch: a unified diff of the given textual replacements against /repo's working tree."""
import difflib, json, sys, os
name, rel = sys.argv[1], sys.argv[2]
pairs = json.load(sys.stdin)
src = open(os.path.join('/repo', rel)).read()
new = src
for old, rep in pairs:
    assert new.count(old) == 1, (name, old, new.count(old))
    new = new.replace(old, rep)
diff = ''.join(difflib.unified_diff(src.splitlines(True), new.splitlines(True), 'a/' + rel, 'b/' + rel))
out = os.path.join(os.path.dirname(os.path.dirname(os.path.abspath(__file__))), 'mutants', name + '.patch')
open(out, 'w').write(diff)
print(out, len(diff.splitlines()), 'lines')
