#!/bin/bash
# tools/mutant.sh <patch.diff> <property id> [tier] : run a check against a scratch copy of /repo
# with the patch applied (never touches /repo).  Exit status = the check's.
# optional 4th argument: a commit of /repo to use as the base instead of the working tree
set -u
PATCH=$(realpath "$1"); PROP=$2; TIER=${3:-quick}
D=$(mktemp -d /tmp/petlmon-mut-XXXXXX)
trap 'rm -rf "$D"' EXIT
BASE=${4:-}
if [ -n "$BASE" ]; then
  mkdir -p "$D/repo" && git -C /repo archive "$BASE" | tar -x -C "$D/repo" && cp /repo/petl/version.py "$D/repo/petl/version.py"
else
  rsync -a --exclude .git --exclude tmp --exclude __pycache__ /repo/ "$D/repo/"
fi
( cd "$D/repo" && patch -p1 -s --no-backup-if-mismatch < "$PATCH" ) || { echo "PATCH-FAILED $PATCH"; exit 3; }
mkdir -p "$D/ev"
cd "$(dirname "$0")/.." && PETL_VERIF_REPO="$D/repo" PETL_VERIF_EVIDENCE_DIR="$D/ev" ./check "$PROP" "$TIER" > "$D/out.txt" 2>&1
RC=$?
head -c 1500 "$D/out.txt" | grep -E "^(C[0-9]+ |VIOLATION|INCONCLUSIVE|KNOWN)" | cut -c1-260 | head -8
grep -q "^VIOLATION" "$D/out.txt" && grep -A1 "^VIOLATION" "$D/out.txt" | sed -n 2p | cut -c1-400
echo "exit=$RC"
exit $RC
