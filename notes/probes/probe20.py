import random, collections, copy, tempfile
import petl as etl, petl.config as config
rnd=random.Random(11)
pool=[None,0,1,2,1.0,'a','b']
td=tempfile.mkdtemp()
def rt(hdr,n):
    return [list(hdr)]+[[rnd.choice(pool) for _ in hdr] for _ in range(n)]
ops={
 'join':(2,lambda a,b,**k: etl.join(a,b,key='k',**k),'k'),'leftjoin':(2,lambda a,b,**k: etl.leftjoin(a,b,key='k',**k),'k'),'rightjoin':(2,lambda a,b,**k: etl.rightjoin(a,b,key='k',**k),'k'),
 'outerjoin':(2,lambda a,b,**k: etl.outerjoin(a,b,key='k',**k),'k'),'antijoin':(2,lambda a,b,**k: etl.antijoin(a,b,key='k',**k),'k'),
 'complement':(3,lambda a,b,**k: etl.complement(a,b,**k),None),'intersection':(3,lambda a,b,**k: etl.intersection(a,b,**k),None),
 'diff0':(3,lambda a,b,**k: etl.diff(a,b,**k)[0],None),'diff1':(3,lambda a,b,**k: etl.diff(a,b,**k)[1],None),
 'recordcomplement':(3,lambda a,b,**k: etl.recordcomplement(a,b,**{x:y for x,y in k.items() if x!='presorted'}),'NOPRE'),
 'duplicates':(1,lambda a,**k: etl.duplicates(a,'k',**k),'k'),'unique':(1,lambda a,**k: etl.unique(a,'k',**k),'k'),'conflicts':(1,lambda a,**k: etl.conflicts(a,'k',**k),'k'),
 'distinct':(1,lambda a,**k: etl.distinct(a,'k',**k),'k'),'distinctall':(1,lambda a,**k: etl.distinct(a,**k),None),
 'rowreduce':(1,lambda a,**k: etl.rowreduce(a,'k',lambda key,rows:[key,[tuple(r) for r in rows]],header=['k','rows'],**k),'k'),
 'aggregate':(1,lambda a,**k: etl.aggregate(a,'k',list,'v',**k),'k'),'aggregate_multi':(1,lambda a,**k: etl.aggregate(a,'k',{'n':len,'vs':('v',list)},**k),'k'),
 'fold':(1,lambda a,**k: etl.fold(a,'k',lambda x,y:(x,y),value='v',**k),'k'),'mergeduplicates':(1,lambda a,**k: etl.mergeduplicates(a,'k',**k),'k'),
 'groupselectfirst':(1,lambda a,**k: etl.groupselectfirst(a,'k',**k),'k'),'groupselectlast':(1,lambda a,**k: etl.groupselectlast(a,'k',**k),'k'),
 'groupselectmin':(1,lambda a,**k: etl.groupselectmin(a,'k','v',**k),'k'),'groupselectmax':(1,lambda a,**k: etl.groupselectmax(a,'k','v',**k),'k'),
 'rowgroupmap':(1,lambda a,**k: etl.rowgroupmap(a,'k',lambda key,rows:[(key,len(list(rows)))],header=['k','n'],**k),'k'),
 'pivot':(1,lambda a,**k: etl.pivot(a,'k','v','w',list,**k),('k','v')),
 'mergesort':(2,lambda a,b,**k: etl.mergesort(a,b,key='k',**k),'k'),
 'unjoin0':(1,lambda a,**k: etl.unjoin(a,'w',key='k',**k)[0],'NOPRE'),'unjoin1':(1,lambda a,**k: etl.unjoin(a,'w',key='k',**k)[1],'NOPRE'),
 'unjoinnk0':(1,lambda a,**k: etl.unjoin(a,'w',**k)[0],'w'),'unjoinnk1':(1,lambda a,**k: etl.unjoin(a,'w',**k)[1],'w'),
 'lookupjoin':(2,lambda a,b,**k: etl.lookupjoin(a,b,key='k',**k),'k'),
}
bad=collections.Counter(); ex={}
def mat(v):
    try: return [tuple(r) for r in iter(v)]
    except Exception as e: return 'RAISED %s'%type(e).__name__
for trial in range(400):
    A=rt(['k','v','w'],rnd.randint(0,5)); B2=rt(['k','x'],rnd.randint(0,4)); B3=rt(['k','v','w'],rnd.randint(0,4))
    for name,(ar,f,pk) in ops.items():
        args=[A] if ar==1 else ([A,B2] if ar==2 else [A,B3])
        base=mat(f(*copy.deepcopy(args)))
        n=max(len(a) for a in args)
        for bs in list(range(1,n+1))+[None]:
            for cache in (True,False):
                for tdir in (None,td):
                    g=mat(f(*copy.deepcopy(args),buffersize=bs,cache=cache,tempdir=tdir))
                    if g!=base: bad[(name,'strategy')]+=1; ex.setdefault((name,'strategy'),(args,bs,cache,base,g))
        old=config.sort_buffersize; config.sort_buffersize=2
        try: g=mat(f(*copy.deepcopy(args)))
        finally: config.sort_buffersize=old
        if g!=base: bad[(name,'config')]+=1; ex.setdefault((name,'config'),(args,base,g))
        if pk!='NOPRE':
            if ar==3 or pk is None: sargs=[list(etl.sort(a)) for a in args]
            elif name in ('join','leftjoin','rightjoin','outerjoin','lookupjoin'): sargs=[list(etl.sort(etl.stack(a),pk)) for a in args]
            else: sargs=[list(etl.sort(a,pk)) for a in args]
            g=mat(f(*sargs,presorted=True))
            if g!=base: bad[(name,'presorted')]+=1; ex.setdefault((name,'presorted'),(args,base,g))
print(bad)
for k,v in ex.items(): print(k,v)
