import petl as etl, os, tempfile, io, csv, gzip, bz2
from petl.io.sources import MemorySource
td=tempfile.mkdtemp()
t1=[['a','b'],['x','é\r\ny'],['1,2','"q"']]
t2=[['a','b'],['z','w\x00']]
def norm(t): return [tuple('' if v is None else str(v) for v in r) for r in t]
for enc in ['utf-8','utf-16','utf-16-le','utf-32','latin-1','utf-8-sig','cp1252']:
    for ext in ['.csv','.csv.gz','.csv.bz2','mem']:
        try:
            if ext=='mem':
                src=MemorySource(); etl.tocsv(t1,src,encoding=enc); etl.appendcsv(t2,src,encoding=enc)
                data=src.getvalue(); back=list(etl.fromcsv(MemorySource(data),encoding=enc))
                s2=MemorySource(); etl.tocsv(etl.cat(t1,t2),s2,encoding=enc); same = s2.getvalue()==data
            else:
                fn=os.path.join(td,'x'+enc+ext); etl.tocsv(t1,fn,encoding=enc); etl.appendcsv(t2,fn,encoding=enc)
                back=list(etl.fromcsv(fn,encoding=enc))
                fn2=os.path.join(td,'y'+enc+ext); etl.tocsv(etl.cat(t1,t2),fn2,encoding=enc)
                op={'.csv':open,'.csv.gz':gzip.open,'.csv.bz2':bz2.open}[ext]
                same = op(fn,'rb').read()==op(fn2,'rb').read()
            exp=norm(t1)+norm(t2[1:])
            print(enc,ext,'roundtrip ok' if back==exp else 'ROUNDTRIP MISMATCH %r'%back, 'bytes same' if same else 'BYTES DIFFER')
        except Exception as e:
            print(enc,ext,'RAISED',repr(e))
