import io, itertools, pickle, collections
import petl as etl
from petl.util.materialise import cache
from petl.errors import DuplicateKeyError
# (1) what do aggregators receive?
t=[['k','v','w'],[1,'a',10],[2,'b',20],[1,'c',30],[None,'d',40],[1.0,'e',50]]
log=[]
def rec(tag):
    def f(g):
        items=list(g); log.append((tag,[ (type(x).__name__, tuple(x) if isinstance(x,(list,tuple)) else x) for x in items])); return len(items)
    return f
list(iter(etl.aggregate(t,'k',rec('simple-rows'))))
list(iter(etl.aggregate(t,'k',rec('simple-val'),'v')))
list(iter(etl.aggregate(t,'k',rec('simple-vals'),('v','w'))))
list(iter(etl.aggregate(t,None,rec('nokey-val'),'v')))
list(iter(etl.aggregate(t,'k',{'n':rec('multi-rows'),'m':('v',rec('multi-val')),'p':(('v','w'),rec('multi-vals'))})))
list(iter(etl.aggregate(t,('k',),rec('compound1'))))
list(iter(etl.rowreduce(t,'k',lambda k,rows:(k,rec('rowreduce')(rows)),header=['k','n'])))
list(iter(etl.fold(t,'k',lambda a,b:(log.append(('fold',a,b)) or a),value='w')))
for l in log: print(l)
# (4) extractor laziness in bytes
class CountingBytes:
    def __init__(self,data): self.data=data; self.opens=0; self.read=0
    def open(self,mode='rb'):
        src=self; src.opens+=1
        class W(io.BytesIO):
            def read(self,n=-1):
                b=super().read(n); src.read+=len(b); return b
            def read1(self,n=-1):
                b=super().read1(n); src.read+=len(b); return b
            def readinto(self,buf):
                n=super().readinto(buf); src.read+=n; return n
            def readline(self,n=-1):
                b=super().readline(n); src.read+=len(b); return b
        return W(self.data)
def mkcsv(n): return ('a,b\r\n'+''.join('%d,%s\r\n'%(i,'x'*200) for i in range(n))).encode()
def mkpk(n):
    b=io.BytesIO(); pickle.dump(('a','b'),b,-1)
    for i in range(n): pickle.dump((i,'x'*200),b,-1)
    return b.getvalue()
for name,mk,fr in [('csv',mkcsv,lambda s: etl.fromcsv(s)),('pickle',mkpk,lambda s: etl.frompickle(s)),('text',mkcsv,lambda s: etl.fromtext(s))]:
    for n in (1000,100000):
        s=CountingBytes(mk(n)); v=fr(s); c0=(s.opens,s.read)
        rows=list(itertools.islice(iter(v),6)); print(name,n,len(s.data),'construct',c0,'after 5 rows: opens',s.opens,'bytes',s.read)
# (5) cache n
src=[['a']]+[[i] for i in range(5)]
for n in (None,1,2,5,6,7):
    c=cache(src,n=n); p=[list(iter(c)) for _ in range(3)]
    print('cache n',n, all(x==src for x in p), len(c.cache), c.cachecomplete)
# (6) lookups strict
t2=[['k','v'],[1,'a'],[2,'b'],[1,'c']]
for f in (etl.lookupone,etl.dictlookupone,etl.recordlookupone):
    try: f(t2,'k',strict=True); print(f.__name__,'no raise')
    except DuplicateKeyError as e: print(f.__name__,'raised',e.key)
print(etl.lookup(t2,'k'), etl.lookup(t2,'k','v'), etl.lookupone(t2,'k'), etl.dictlookup(t2,'k'))
