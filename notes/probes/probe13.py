import sys, time
import petl as etl
from petl import comparison
C=comparison.Comparable
log=[]
orig=C.__lt__
def spy(self, other):
    r=orig(self, other)
    log.append((self.inner, other.inner if isinstance(other,C) else other, r))
    return r
C.__lt__=spy
print(list(etl.sort([['a'],[3],[None],['x'],[1]],'a')), len(log), log[:3])
print(list(etl.selectlt([['a'],[3],[None],['x'],[1]],'a',2)), len(log))
print(list(etl.join([['a','b'],[3,1],[None,2]],[['a','c'],[3,1]],key='a')), len(log))
C.__lt__=orig
# sys.monitoring coverage probe
mon=sys.monitoring
TID=mon.COVERAGE_ID
mon.use_tool_id(TID,'petlmon')
hits=set()
def on_line(code, line):
    if 'petl/transform' in code.co_filename:
        hits.add((code.co_filename.split('/')[-1], line))
    return mon.DISABLE
mon.register_callback(TID, mon.events.LINE, on_line)
mon.set_events(TID, mon.events.LINE)
t0=time.time()
for i in range(2000):
    list(etl.leftjoin([['a','b'],[3,1],[None,2]],[['a','c'],[3,1]],key='a'))
t1=time.time()
mon.set_events(TID, 0)
print(sorted(l for f,l in hits if f=='joins.py')[:80], t1-t0)
t0=time.time()
for i in range(2000):
    list(etl.leftjoin([['a','b'],[3,1],[None,2]],[['a','c'],[3,1]],key='a'))
print(time.time()-t0)
