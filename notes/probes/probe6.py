import random, itertools, collections
import petl as etl
from petl.comparison import Comparable as C
Counter=collections.Counter
rnd=random.Random(3)
pool=[None,0,1,2,1.0,'a','b']
def rtable(hdr, n, ragged=False):
    w=len(hdr); rows=[]
    for i in range(n):
        ln = rnd.choice([w,w,w,w-1,w+1]) if ragged else w
        rows.append([rnd.choice(pool) for _ in range(max(ln,0))])
    return [list(hdr)]+rows
bad=Counter(); ex={}
def rec(tag, info):
    bad[tag]+=1; ex.setdefault(tag, info)
def run(f):
    try: return list(f())
    except Exception as e: return ('RAISED', type(e).__name__, str(e))
pairs=[('hashjoin','join'),('hashleftjoin','leftjoin'),('hashrightjoin','rightjoin'),('hashantijoin','antijoin'),('hashlookupjoin','lookupjoin')]
for trial in range(3000):
    rag = rnd.random()<0.5
    L=rtable(['id','k2','a'], rnd.randint(0,5), rag); R=rtable(['id','k2','b'], rnd.randint(0,5), rag)
    key=rnd.choice(['id',('id','k2')])
    for h,m in pairs:
        if 'anti' in h and rag: continue
        a=run(lambda: getattr(etl,h)(L,R,key=key)); b=run(lambda: getattr(etl,m)(L,R,key=key))
        if a and a[0]=='RAISED' or b and b[0]=='RAISED':
            rec((h,'raised', a[1] if a[0]=='RAISED' else 'ok', b[1] if b[0]=='RAISED' else 'ok'),(L,R,key,a,b)); continue
        if a[0]!=b[0] or Counter(a[1:])!=Counter(b[1:]): rec((h,'mismatch'),(L,R,key,a,b))
    # setops
    A=rtable(['x','y'], rnd.randint(0,5)); B=rtable(['x','y'], rnd.randint(0,5))
    ca=Counter(map(tuple,A[1:])); cb=Counter(map(tuple,B[1:]))
    for strict in (False,True):
        got=run(lambda: etl.complement(A,B,strict=strict))
        exp=Counter({k:v for k,v in ca.items() if k not in cb}) if strict else ca-cb
        if got and got[0]=='RAISED' or Counter(got[1:])!=exp: rec(('complement',strict),(A,B,got,exp))
        got=run(lambda: etl.hashcomplement(A,B,strict=strict))
        if got and got[0]=='RAISED' or Counter(got[1:])!=exp: rec(('hashcomplement',strict),(A,B,got,exp))
    got=run(lambda: etl.intersection(A,B)); exp=ca&cb
    if got and got[0]=='RAISED' or Counter(got[1:])!=exp: rec(('intersection',),(A,B,got,exp))
    got=run(lambda: etl.hashintersection(A,B))
    if got and got[0]=='RAISED' or Counter(got[1:])!=exp: rec(('hashintersection',),(A,B,got,exp))
    # dedup
    T=rtable(['x','y','z'], rnd.randint(0,6))
    key=rnd.choice([None,'x',('x','y')])
    idx=[0,1,2] if key is None else [T[0].index(k) for k in (key if isinstance(key,tuple) else (key,))]
    kf=lambda r: tuple(r[i] for i in idx)
    mult=Counter(kf(r) for r in T[1:])
    rows=[tuple(r) for r in T[1:]]
    d=run(lambda: etl.duplicates(T,key)); u=run(lambda: etl.unique(T,key)); di=run(lambda: etl.distinct(T,key)); dc=run(lambda: etl.distinct(T,key,count='n'))
    if d[0]=='RAISED' or Counter(d[1:])!=Counter(r for r in rows if mult[kf(r)]>1): rec(('duplicates',),(T,key,d))
    if u[0]=='RAISED' or Counter(map(tuple,u[1:]))!=Counter(r for r in rows if mult[kf(r)]==1): rec(('unique',),(T,key,u))
    if di[0]=='RAISED' or Counter(kf(r) for r in di[1:])!=Counter(mult.keys()): rec(('distinct',),(T,key,di))
    if dc[0]=='RAISED' or sum(r[-1] for r in dc[1:])!=len(rows) or Counter(kf(r) for r in dc[1:])!=Counter(mult.keys()): rec(('distinctcount', dc[1] if dc[0]=='RAISED' else 'mismatch', len(rows)),(T,key,dc))
print(bad)
for k,v in ex.items(): print(k, v)
