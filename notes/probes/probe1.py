import petl as etl, traceback
def show(name, f):
    try:
        r = f()
        print(name, '->', r)
    except BaseException as e:
        print(name, 'RAISED', type(e).__name__, e)

H=[['id','v']]
L=[['id','a'],[None,'x'],[1,'y']]
R0=[['id','b']]
show('leftjoin None-key left, empty right', lambda: list(etl.leftjoin(L,R0,key='id')))
show('outerjoin None-key left, empty right', lambda: list(etl.outerjoin(L,R0,key='id')))
show('antijoin None-key left, empty right', lambda: list(etl.antijoin(L,R0,key='id')))
show('lookupjoin None-key left, empty right', lambda: list(etl.lookupjoin(L,R0,key='id')))
show('lookupjoin empty left', lambda: list(etl.lookupjoin(R0,L,key='id')))
show('lookupjoin both', lambda: list(etl.lookupjoin(L,[['id','b'],[1,'q'],[None,'z']],key='id')))
show('lookupjoin mixed', lambda: list(etl.lookupjoin([['id','a'],[1,'x'],['s','y']],[['id','b'],[1,'q'],['s','z']],key='id')))
show('rightjoin empty left, None right', lambda: list(etl.rightjoin(R0,L,key='id')))
show('distinct count empty', lambda: list(etl.distinct(H, count='n')))
show('distinct empty', lambda: list(etl.distinct(H)))
show('filldown empty', lambda: list(etl.filldown(H)))
show('selectusingcontext empty', lambda: list(etl.selectusingcontext(H, lambda p,c,n: True)))
show('issorted empty', lambda: etl.issorted(H))
show('issorted empty key', lambda: etl.issorted(H, key='id'))
show('issorted mixed nokey', lambda: etl.issorted([['a'],[None],[1],['x']]))
show('sort mixed nokey', lambda: list(etl.sort([['a'],['x'],[None],[1]])))
show('mergesort nokey None', lambda: list(etl.mergesort([['a'],['x'],[None],[1]], [['a'],[2]])))
show('mergesort key None cells', lambda: list(etl.mergesort([['a'],['x'],[None],[1]], [['a'],[2]], key='a')))
show('capture int field', lambda: list(etl.capture([['a','b'],['x1','y']], 0, '(.)(.)', ['p','q'])))
show('movefield dup', lambda: list(etl.movefield([['a','b','a'],[1,2,3]], 'a', 1)))
show('groupselectmin presorted', lambda: list(etl.groupselectmin([['k','v'],['a',3],['a',1],['b',2],['b',0]], 'k','v', presorted=True)))
show('groupselectmin', lambda: list(etl.groupselectmin([['k','v'],['a',3],['a',1],['b',2],['b',0]], 'k','v')))
