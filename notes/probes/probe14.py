import random, collections
import petl as etl
from petl.comparison import Comparable as C
rnd=random.Random(5)
pool=[None,0,1,2,1.5,'a','b',True]
bad=collections.Counter(); ex={}
def rec(tag,info): bad[tag]+=1; ex.setdefault(tag,info)
for trial in range(3000):
    nk=rnd.choice([1,2]); nv=rnd.choice([1,2,3])
    kf=['k%d'%i for i in range(nk)]; vf=rnd.sample(['va','vb','vc','vd'],nv)
    hdr=kf+vf
    n=rnd.randint(0,5)
    keys=set(); rows=[]
    for i in range(n):
        k=tuple(rnd.choice(pool) for _ in kf)
        if any(C(k)==C(k2) for k2 in keys): continue
        keys.add(k); rows.append(list(k)+[rnd.choice(pool) for _ in vf])
    t=[hdr]+rows
    key=kf[0] if nk==1 else tuple(kf)
    try:
        m=etl.melt(t,key=key)
        got=list(etl.recast(m,key=kf))
        exp=list(etl.sort(etl.cut(t,*(kf+sorted(vf))),key))
        if n==0: exp=[tuple(kf)] # no variables discovered
        if got!=exp: rec('melt-recast',(t,got,exp))
        if len(list(m))-1 != n*nv: rec('melt-count',(t,))
    except Exception as e:
        rec('melt-recast-raise:'+type(e).__name__,(t,repr(e)))
    # transpose
    try:
        tt=list(etl.transpose(etl.transpose(t)))
        if tt!=[tuple(r) for r in t]: rec('transpose',(t,tt))
    except Exception as e: rec('transpose-raise',(t,repr(e)))
    # flatten/unflatten
    try:
        w=len(hdr)
        u=list(etl.unflatten(etl.flatten(t),w))
        if u[1:]!=[tuple(r) for r in t[1:]]: rec('unflatten',(t,u))
    except Exception as e: rec('unflatten-raise',(t,repr(e)))
    # fromdicts(dicts)
    try:
        if n>0:
            fd=list(etl.fromdicts(etl.dicts(t)))
            if fd!=[tuple(r) for r in t]: rec('fromdicts',(t,fd))
        fc=etl.columns(t); f2=list(etl.fromcolumns(list(fc.values()),header=list(fc.keys())))
        if f2!=[tuple(r) for r in t]: rec('fromcolumns',(t,f2))
    except Exception as e: rec('dicts-raise',(t,repr(e)))
    # pivot
    try:
        t3=[['r','c','v']]+[[rnd.choice([None,1,2,'a']),rnd.choice([1,2,3]),rnd.randint(0,9)] for _ in range(rnd.randint(0,6))]
        p=list(etl.pivot(t3,'r','c','v',sum))
        cols=sorted(set(r[1] for r in t3[1:]))
        d=collections.defaultdict(list)
        for r in t3[1:]: d[(r[0],r[1])].append(r[2])
        rks=[]
        for r in t3[1:]:
            if not any(C(r[0])==C(x) for x in rks): rks.append(r[0])
        rks.sort(key=C)
        exp=[tuple(['r']+cols)]+[tuple([rk]+[sum(d[(rk,c)]) if (rk,c) in d else None for c in cols]) for rk in rks]
        if p!=exp: rec('pivot',(t3,p,exp))
    except Exception as e: rec('pivot-raise:'+type(e).__name__,(t3,repr(e)))
print(bad)
for k,v in ex.items(): print(k,v)
