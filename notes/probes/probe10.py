import petl as etl, sqlite3, os, tempfile, sys, gc
td=tempfile.mkdtemp()
class Boom(Exception): pass
def failing(table, at):
    # at: index in full row sequence (0=header) at which to raise; len(table) => raise at exhaustion
    class T:
        def __iter__(self):
            for i,r in enumerate(table):
                if i==at: raise Boom(at)
                yield r
            if at==len(table): raise Boom('end')
    return T()
def fresh(fn):
    c=sqlite3.connect(fn, timeout=0.2); 
    try: return c.execute('select * from t order by rowid').fetchall()
    finally: c.close()
events=[]
_orig=sqlite3.connect
def _conn(*a,**k):
    c=_orig(*a,**k); c.set_trace_callback(lambda s: events.append(s)); return c
sqlite3.connect=_conn
prev=[(1,'a'),(2,'b')]
new=[['x','y'],[10,'p'],[20,'q'],[30,'r']]
for kind in ['filename','connection','cursor','mkcurs']:
  for fn_ in (etl.todb, etl.appenddb):
    for at in range(0,len(new)+1):
        fn=os.path.join(td,'d%s%s%d.db'%(kind,fn_.__name__,at))
        c=sqlite3.connect(fn); c.execute('create table t (x,y)'); c.executemany('insert into t values (?,?)',prev); c.commit(); c.close()
        del events[:]
        conn=None
        if kind=='filename': dbo=fn
        else:
            conn=sqlite3.connect(fn)
            dbo={'connection':conn,'cursor':conn.cursor(),'mkcurs':(lambda conn=conn: conn.cursor())}[kind]
        try:
            fn_(failing(new,at), dbo, 't'); res='ok'
        except Boom as e: res='boom'
        except Exception as e: res=repr(e)
        try: seen=fresh(fn)
        except Exception as e: seen=repr(e)
        print(kind, fn_.__name__, at, res, seen==prev, seen if seen!=prev else '', [e for e in events if e.split()[0] in ('BEGIN','COMMIT','ROLLBACK','DELETE')])
        if conn: conn.close()
