import itertools, datetime, decimal, random, functools
import petl as etl
from petl.comparison import Comparable as C
D=decimal.Decimal
atoms=[None, False, True, 0, 1, -1, 2, 1.0, 0.5, -0.0, float('inf'), D('1'), D('0.5'), D('2.5'), b'', b'a', b'b', '', 'a', 'b', 'A',
       datetime.date(2020,1,1), datetime.date(2021,1,1), datetime.datetime(2020,1,1,0,0), datetime.datetime(2020,6,1), datetime.time(1,2), datetime.time(3,4)]
nest=[(), (1,), (1,2), (None,), (1,None), ('a',), (1,'a'), [1], [1,2], [], ((1,),), ((1,),2), (1,(2,)), ('a',(1,)), [None, 'a'], (b'a',), (1.0,), (True,)]
vals=atoms+nest
NUM=(bool,int,float,D)
def tname(v):
    if isinstance(v,bytes): return 'str'
    if isinstance(v,str): return 'unicode'
    if isinstance(v,(list,tuple)): return 'tuple'
    return type(v).__name__
def mcmp(a,b):
    # reference model: -1,0,1
    if a is None or b is None: return (a is not None)-(b is not None)
    an,bn=isinstance(a,NUM),isinstance(b,NUM)
    if an or bn:
        if an and bn: return (a>b)-(a<b)
        return -1 if an else 1
    ta,tb=tname(a),tname(b)
    if ta!=tb: return (ta>tb)-(ta<tb)
    if ta=='tuple':
        for x,y in zip(a,b):
            c=mcmp(x,y)
            if c: return c
        return (len(a)>len(b))-(len(a)<len(b))
    return (a>b)-(a<b)
dis=0
for a,b in itertools.product(vals,repeat=2):
    m=mcmp(a,b); l=C(a)<C(b); e=C(a)==C(b)
    if (m<0)!=l or (m==0)!=e: dis+=1; print('DISAGREE',a,b,m,l,e)
print('disagreements',dis)
# selectors vs model
rnd=random.Random(1)
t=[['f','id']]+[[v,i] for i,v in enumerate(vals)]+[[ ]]  # last row missing cell -> missing
sel={'selectlt':lambda c: c<0,'selectle':lambda c:c<=0,'selectgt':lambda c:c>0,'selectge':lambda c:c>=0}
bad=0
for ref in vals:
    for name,p in sel.items():
        got=[tuple(r) for r in list(iter(getattr(etl,name)(t,'f',ref)))[1:]]
        exp=[tuple(r) for r in t[1:] if p(mcmp(r[0] if r else None, ref))]
        if got!=exp: bad+=1; print('SEL',name,ref,'\n got',got,'\n exp',exp) if bad<5 else None
    for name,p in {'selectrangeopenleft':lambda a,b: a>=0 and b<0,'selectrangeopenright':lambda a,b: a>0 and b<=0,'selectrangeopen':lambda a,b:a>=0 and b<=0,'selectrangeclosed':lambda a,b:a>0 and b<0}.items():
        hi=rnd.choice(vals)
        try:
            got=[tuple(r) for r in list(iter(getattr(etl,name)(t,'f',ref,hi)))[1:]]
        except Exception as e:
            got=repr(e)
        exp=[tuple(r) for r in t[1:] if p(mcmp(r[0] if r else None, ref), mcmp(r[0] if r else None, hi))]
        if got!=exp: bad+=1; print('RNG',name,ref,hi,'\n got',got,'\n exp',exp) if bad<8 else None
print('selector mismatches',bad)
import collections
cnt=collections.Counter(); exs={}
for ref in vals:
    for name,p in sel.items():
        got=[tuple(r) for r in list(iter(getattr(etl,name)(t,'f',ref)))[1:]]
        exp=[tuple(r) for r in t[1:] if p(mcmp(r[0] if r else None, ref))]
        if got!=exp:
            diff=[r for r in got if r not in exp]+[r for r in exp if r not in got]
            kinds=tuple(sorted(set(type(r[0]).__name__ if r else 'missing' for r in diff)))
            cnt[(name,kinds,type(ref).__name__)]+=1; exs.setdefault((name,kinds),(ref,diff))
print(cnt); print(exs)
