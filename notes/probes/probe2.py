import petl as etl, itertools, random, datetime, decimal
def show(name, f):
    try:
        r = f()
        print(name, '->', r)
    except BaseException as e:
        print(name, 'RAISED', type(e).__name__, e)

# cache interleave
t=[['a'],[1],[2],[3]]
from petl.util.materialise import cache; c=cache(t)
A=iter(c); B=iter(c)
out=[next(A), next(B), next(B), next(A), next(A), next(B)]
print('cache sched', out, 'fresh', list(c))
# randomtable interleave
r=etl.randomtable(2,3,seed=1)
solo=list(r)
A=iter(r); B=iter(r)
a=[next(A)]; b=[next(B)]
a.append(next(A)); b.append(next(B)); a.append(next(A)); b.append(next(B))
print('random A ok', a==solo[:3], 'B ok', b==solo[:3])
d=etl.dummytable(3,seed=1)
solo=list(d)
A=iter(d); B=iter(d)
a=[next(A)]; b=[next(B)]
a.append(next(A)); b.append(next(B)); a.append(next(A)); b.append(next(B))
print('dummy A ok', a==solo[:3], 'B ok', b==solo[:3])
# sort interleave
s=etl.sort([['a'],[3],[1],[2]])
A=iter(s); x=[next(A),next(A)]; B=iter(s); y=[next(B)]; x+=list(A); y+=list(B)
print('sort', x, y, list(s))
s=etl.sort([['a'],[3],[1],[2]], buffersize=2)
A=iter(s); x=[next(A),next(A)]; B=iter(s); y=[next(B)]; x+=list(A); y+=list(B)
print('sort buf', x, y, list(s))
# diff cache False
src=[['a'],[1],[2]]
b=[['a'],[2]]
add, sub = etl.diff(src, b, cache=False)
p1=list(sub); src.append([5]); p2=list(sub)
print('diff cache=False', p1, p2)
cmp_=etl.complement(src,b,cache=False); p1=list(cmp_); src.append([7]); p2=list(cmp_)
print('complement cache=False', p1, p2)
# hashjoin cache
L=[['id','x'],[1,'a']]; R=[['id','y'],[1,'p']]
hj=etl.hashjoin(L,R,key='id',cache=False); p1=list(hj); R.append([1,'q']); p2=list(hj)
print('hashjoin cache False', p1, p2)
