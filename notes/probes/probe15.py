import petl as etl, pickle
from petl.io.sources import MemorySource
tables=[[['a','b']], [['a','b'],[1,'x\r\ny'],[None,'é,"'],[3]], [['a','b'],[1,2,3],[]], []]
def b(f,*a,**k):
    s=MemorySource(); 
    try: f(*a,source=s,**k)
    except Exception as e: return 'RAISED '+repr(e)
    return s.getvalue()
def tee(f,t,**k):
    s=MemorySource()
    try:
        v=f(t,source=s,**k); rows=[tuple(r) for r in v]
    except Exception as e: return 'RAISED '+repr(e), None
    return s.getvalue(), rows
for t in tables:
    for name,to,te,kw in [('csv',etl.tocsv,etl.teecsv,{}),('csv-nohdr',etl.tocsv,etl.teecsv,{'write_header':False}),('csv-enc',etl.tocsv,etl.teecsv,{'encoding':'utf-16'}),
                          ('tsv',etl.totsv,etl.teetsv,{}),('pickle',etl.topickle,etl.teepickle,{}),('pickle-nohdr',etl.topickle,etl.teepickle,{'write_header':False}),
                          ('text',etl.totext,etl.teetext,{'template':'{a}|{b}\n','prologue':'P\r\n','epilogue':'E'}),('html',etl.tohtml,etl.teehtml,{}),('html-cap',etl.tohtml,etl.teehtml,{'caption':'c','index_header':True})]:
        x=b(lambda source,**k: to(t,source,**k),**kw); y,rows=tee(lambda t,source,**k: te(t,source,**k),t,**kw)
        ok = x==y and (rows is None or rows==[tuple(r) for r in t])
        if not ok: print('DIFF',name,t,'\n  to :',x,'\n  tee:',y,rows)
print('done')
