import traceback
EVENTS=[]
def _mk(name):
    def m(self,*a,**k):
        EVENTS.append((name, ''.join(traceback.format_stack(limit=4)[:-1])))
        return getattr(list,name)(self,*a,**k)
    return m
class GuardedList(list):
    __slots__=()
for n in ['append','extend','insert','pop','remove','clear','sort','reverse','__setitem__','__delitem__','__iadd__','__imul__']:
    setattr(GuardedList,n,_mk(n))
def guard(t):
    return GuardedList(GuardedList(r) for r in t)
