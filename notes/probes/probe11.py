import petl as etl, sys, os, gc, tempfile, itertools
td=tempfile.mkdtemp(); tempfile.tempdir=td
live=set(); created=[]; removed=[]
def hook(ev,args):
    if ev=='tempfile.mkstemp': created.append(args[0]); live.add(args[0])
    elif ev in ('os.remove','os.unlink'): removed.append(args[0]); live.discard(args[0])
sys.addaudithook(hook)
class Boom(Exception): pass
def src(n, fail_at=None):
    class T:
        def __iter__(self):
            yield ('a','b')
            for i in range(n):
                if i==fail_at: raise Boom(i)
                yield (n-i, i)
    return T()
bad=0; cases=0
for n in range(0,6):
  for bs in range(1,n+2):
    for cache in (True,False):
      for fail_at in [None]+list(range(n)):
        for k1 in range(0,n+3):
          for k2 in range(0,n+3):
            cases+=1
            v=etl.sort(src(n,fail_at),'a',buffersize=bs,cache=cache)
            exp=[('a','b')]+sorted([(n-i,i) for i in range(n)])
            its=[iter(v),iter(v)]
            got=[[],[]]
            try:
                for j,k in enumerate((k1,k2)):
                    got[j]=list(itertools.islice(its[j],k))
            except Boom: pass
            if fail_at is None:
                if got[0]!=exp[:k1] or got[1]!=exp[:k2]: bad+=1; print('rows wrong',n,bs,cache,k1,k2,got)
            # release view first, iterators continue
            del v
            if fail_at is None:
                rest=[list(its[0]), list(its[1])]
                if got[0]+rest[0]!=exp or got[1]+rest[1]!=exp: bad+=1; print('rest wrong',n,bs,cache,k1,k2)
            del its
            gc.collect()
            if os.listdir(td) or live:
                bad+=1; print('LEAK',n,bs,cache,fail_at,k1,k2,os.listdir(td))
                for f in os.listdir(td): os.unlink(os.path.join(td,f))
                live.clear()
print(cases,bad,len(created),len(removed))
# fromdicts generator
def gen(n):
    for i in range(n): yield {'a':i,'b':str(i)}
for n in range(0,5):
    for k in range(0,n+2):
        v=etl.fromdicts(gen(n)); it=iter(v); got=list(itertools.islice(it,k)); it2=iter(v); g2=list(it2)
        del v, it, it2; gc.collect()
        if os.listdir(td): print('LEAK fromdicts',n,k,os.listdir(td))
print('done', len(created), len(removed))
