import itertools, collections
import petl as etl, petl.config as config
class Boom(Exception): pass
bad=collections.Counter(); ex={}
def rec(tag,info): bad[tag]+=1; ex.setdefault(tag,info)
def pull(v):
    out=[]; it=iter(v); err=None
    while True:
        try: out.append(next(it))
        except StopIteration: break
        except Boom as e: err=e; break
    return out,err
for n in range(0,5):
  for fails in itertools.chain.from_iterable(itertools.combinations(range(n),k) for k in range(n+1)):
    fails=set(fails)
    t=[['id','v']]+[[i,'x%d'%i] for i in range(n)]
    for policy in (False,True,'inline'):
      for via in ('arg','config'):
        for ev in (None,'ERR'):
            raised=[]
            def conv(v):
                i=int(v[1:])
                if i in fails:
                    e=Boom(i); raised.append(e); raise e
                return v.upper()
            def rmap(r):
                if r.id in fails:
                    e=Boom(r.id); raised.append(e); raise e
                return [r.id, r.v.upper()]
            def rgen(r):
                yield [r.id,'a']
                if r.id in fails:
                    e=Boom(r.id); raised.append(e); raise e
                yield [r.id,'b']
            old=config.failonerror
            try:
                kw={}
                if via=='arg': kw['failonerror']=policy
                else: config.failonerror=policy
                views={'convert':etl.convert(t,'v',conv,errorvalue=ev,**kw),'fieldmap':etl.fieldmap(t,{'id':'id','v':('v',conv)},errorvalue=ev,**kw),
                       'rowmap':etl.rowmap(t,rmap,['id','v'],**kw),'rowmapmany':etl.rowmapmany(t,rgen,['id','v'],**kw)}
            finally:
                config.failonerror=old
            for name,v in views.items():
                del raised[:]
                out,err=pull(v)
                first=min(fails) if fails else None
                if name in ('convert','fieldmap'):
                    full=[('id','v')]+[(i,'X%d'%i) if i not in fails else (i,'FAIL') for i in range(n)]
                    if policy is True:
                        exp=full[:1+first] if fails else full
                        ok= out==exp and ((err is None)==(not fails)) and (not fails or err is raised[0])
                    elif policy is False:
                        exp=[r if r[1]!='FAIL' else (r[0],ev) for r in full]; ok= out==exp and err is None
                    else:
                        ok= err is None and len(out)==len(full) and all((a==b) if b[1]!='FAIL' else (a[0]==b[0] and isinstance(a[1],Boom) and a[1].args==(b[0],)) for a,b in zip(out,full))
                elif name=='rowmap':
                    if policy is True:
                        exp=[('id','v')]+[(i,'X%d'%i) for i in range(n) if first is None or i<first]; ok= out==exp and ((err is None)==(not fails))
                    elif policy is False:
                        exp=[('id','v')]+[(i,'X%d'%i) for i in range(n) if i not in fails]; ok= out==exp and err is None
                    else:
                        ok= err is None and len(out)==n+1 and all((o==(i,'X%d'%i)) if i not in fails else (len(o)==1 and isinstance(o[0],Boom)) for i,o in enumerate(out[1:]))
                else:
                    rows=[]
                    stop=False
                    for i in range(n):
                        rows.append((i,'a'))
                        if i in fails:
                            if policy is True: stop=True; break
                            if policy=='inline': rows.append('EXC')
                            continue
                        rows.append((i,'b'))
                    if policy is True: ok = out[1:]==rows and ((err is None)==(not fails))
                    elif policy is False: ok = out[1:]==rows and err is None
                    else: ok = err is None and len(out)-1==len(rows) and all((o==r) if r!='EXC' else (len(o)==1 and isinstance(o[0],Boom)) for o,r in zip(out[1:],rows))
                if not ok: rec((name,policy,via),(t,fails,ev,out,err))
print(bad)
for k,v in list(ex.items())[:6]: print(k,v)
