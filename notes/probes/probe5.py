import random, itertools, collections
import petl as etl
from petl.comparison import Comparable as C
rnd=random.Random(2)
pool=[None,0,1,2,1.0,'a','b']
def rtable(hdr, n, ragged=True):
    w=len(hdr); rows=[]
    for i in range(n):
        ln = rnd.choice([w,w,w,w-1,w+1]) if ragged else w
        rows.append([rnd.choice(pool) for _ in range(max(ln,0))])
    return [list(hdr)]+rows
def square(t, missing):
    w=len(t[0]); out=[tuple(t[0])]
    for r in t[1:]:
        r=tuple(r)[:w]; r=r+(missing,)*(w-len(r)); out.append(r)
    return out
def refjoin(L,R,lk,rk,kind,missing=None):
    L=square(L,missing); R=square(R,missing)
    lki=[L[0].index(k) for k in lk]; rki=[R[0].index(k) for k in rk]
    rvi=[i for i in range(len(R[0])) if i not in rki]
    hdr=tuple(L[0])+tuple(R[0][i] for i in rvi)
    out=[]
    kl=lambda r: tuple(r[i] for i in lki); kr=lambda r: tuple(r[i] for i in rki)
    matchedR=set()
    for l in L[1:]:
        partners=[(j,r) for j,r in enumerate(R[1:]) if kr(r)==kl(l)]
        if kind=='lookup': partners=partners[:1]
        for j,r in partners:
            matchedR.add(j); out.append(l+tuple(r[i] for i in rvi))
        if not partners and kind in ('left','outer','lookup'):
            out.append(l+(missing,)*len(rvi))
    if kind in ('right','outer'):
        for j,r in enumerate(R[1:]):
            if j not in matchedR:
                o=[missing]*len(L[0])
                for li,ri in zip(lki,rki): o[li]=r[ri]
                out.append(tuple(o)+tuple(r[i] for i in rvi))
    return hdr,out
fn={'inner':etl.join,'left':etl.leftjoin,'right':etl.rightjoin,'outer':etl.outerjoin,'lookup':etl.lookupjoin}
bad=collections.Counter(); n=0; ex={}
for trial in range(6000):
    L=rtable(['id','k2','a'], rnd.randint(0,5)); R=rtable(['id','k2','b'], rnd.randint(0,5))
    key=rnd.choice(['id',('id','k2')])
    ks=key if isinstance(key,tuple) else (key,)
    for kind,f in fn.items():
        n+=1
        hdr,exp=refjoin(L,R,ks,ks,kind)
        try:
            got=list(f(L,R,key=key))
            ok = got[0]==hdr and collections.Counter(got[1:])==collections.Counter(exp)
            sig='mismatch'
        except Exception as e:
            ok=False; got=repr(e); sig=type(e).__name__
        if not ok:
            bad[(kind,sig)]+=1
            ex.setdefault((kind,sig),(L,R,key,exp,got))
print(n,bad)
for k,v in ex.items(): print(k,'\n L',v[0],'\n R',v[1],'\n key',v[2],'\n exp',v[3],'\n got',v[4])
