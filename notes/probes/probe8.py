import petl as etl, itertools, warnings
from petl.util.materialise import cache
E=lambda: [['f0','f1','f2']]
N=lambda: [['f0','f1','f2'],[1,'a','x'],[2,'b','y']]
E2=lambda: [['f0','g1']]
N2=lambda: [['f0','g1'],[1,'p'],[3,'q']]
unary={
 'cut':lambda s: etl.cut(s,'f0','f2'),'cutout':lambda s: etl.cutout(s,'f1'),'cat':lambda s: etl.cat(s),'stack':lambda s: etl.stack(s),
 'addfield':lambda s: etl.addfield(s,'z',lambda r: r.f0),'addfields':lambda s: etl.addfields(s,[('z',1)]),'rowslice':lambda s: etl.rowslice(s,2,None),
 'head':lambda s: etl.head(s,5),'tail':lambda s: etl.tail(s,5),'skipcomments':lambda s: etl.skipcomments(s,'#'),'movefield':lambda s: etl.movefield(s,'f2',0),
 'addrownumbers':lambda s: etl.addrownumbers(s),'addcolumn':lambda s: etl.addcolumn(s,'q',[]),'addfieldusingcontext':lambda s: etl.addfieldusingcontext(s,'q',lambda p,c,n: 1),
 'rename':lambda s: etl.rename(s,'f0','g'),'setheader':lambda s: etl.setheader(s,['a','b','c']),'extendheader':lambda s: etl.extendheader(s,['zz']),
 'pushheader':lambda s: etl.pushheader(s,['a','b','c']),'skip':lambda s: etl.skip(s,0),'prefixheader':lambda s: etl.prefixheader(s,'p'),'suffixheader':lambda s: etl.suffixheader(s,'p'),
 'sortheader':lambda s: etl.sortheader(s),'convert':lambda s: etl.convert(s,'f0',str),'convertall':lambda s: etl.convertall(s,str),'convertnumbers':lambda s: etl.convertnumbers(s),
 'replace':lambda s: etl.replace(s,'f1','v1','X'),'replaceall':lambda s: etl.replaceall(s,'v1','X'),'update':lambda s: etl.update(s,'f1','X'),'format':lambda s: etl.format(s,'f0','{:03d}'),'formatall':lambda s: etl.formatall(s,'{}'),
 'interpolate':lambda s: etl.interpolate(s,'f0','%03d'),'interpolateall':lambda s: etl.interpolateall(s,'%s'),
 'sort':lambda s: etl.sort(s),'sortkey':lambda s: etl.sort(s,'f1'),'sortbuf':lambda s: etl.sort(s,'f1',buffersize=1),'mergesort':lambda s: etl.mergesort(s,E(),key='f0'),'issorted':lambda s: etl.issorted(s,'f0'),
 'select':lambda s: etl.select(s,lambda r: True),'selectexpr':lambda s: etl.select(s,'{f0} == 1'),'selecteq':lambda s: etl.selecteq(s,'f0',1),'selectne':lambda s: etl.selectne(s,'f0',1),'selectlt':lambda s: etl.selectlt(s,'f0',1),
 'selectle':lambda s: etl.selectle(s,'f0',1),'selectgt':lambda s: etl.selectgt(s,'f0',1),'selectge':lambda s: etl.selectge(s,'f0',1),'selectcontains':lambda s: etl.selectcontains(s,'f1','a'),
 'selectin':lambda s: etl.selectin(s,'f0',[1]),'selectnotin':lambda s: etl.selectnotin(s,'f0',[1]),'selectis':lambda s: etl.selectis(s,'f0',None),'selectisnot':lambda s: etl.selectisnot(s,'f0',None),
 'selectisinstance':lambda s: etl.selectisinstance(s,'f0',int),'selectrangeopenleft':lambda s: etl.selectrangeopenleft(s,'f0',0,2),'selectrangeopenright':lambda s: etl.selectrangeopenright(s,'f0',0,2),
 'selectrangeopen':lambda s: etl.selectrangeopen(s,'f0',0,2),'selectrangeclosed':lambda s: etl.selectrangeclosed(s,'f0',0,2),'selecttrue':lambda s: etl.selecttrue(s,'f0'),'selectfalse':lambda s: etl.selectfalse(s,'f0'),
 'selectnone':lambda s: etl.selectnone(s,'f0'),'selectnotnone':lambda s: etl.selectnotnone(s,'f0'),'selectusingcontext':lambda s: etl.selectusingcontext(s,lambda p,c,n: True),'rowlenselect':lambda s: etl.rowlenselect(s,3),
 'facet':lambda s: {k:list(v) for k,v in etl.facet(s,'f0').items()},'biselect':lambda s: [list(x) for x in etl.biselect(s,lambda r: True)],
 'unjoin':lambda s: [list(x) for x in etl.unjoin(s,'f2',key='f1')],'unjoin_nokey':lambda s: [list(x) for x in etl.unjoin(s,'f2')],
 'rowreduce':lambda s: etl.rowreduce(s,'f0',lambda k,rows:[k,len(list(rows))],header=['f0','n']),'mergeduplicates':lambda s: etl.mergeduplicates(s,'f0'),
 'aggregate_len':lambda s: etl.aggregate(s,'f0',len),'aggregate_none_len':lambda s: etl.aggregate(s,None,len),'aggregate_none_sum':lambda s: etl.aggregate(s,None,sum,'f0'),'aggregate_field':lambda s: etl.aggregate(s,'f0',list,'f1'),
 'aggregate_multi':lambda s: etl.aggregate(s,'f0',{'n':len,'l':('f1',list)}),'aggregate_multi_none':lambda s: etl.aggregate(s,None,{'n':len}),'aggregate_compound':lambda s: etl.aggregate(s,('f0','f1'),len),
 'groupcountdistinctvalues':lambda s: etl.groupcountdistinctvalues(s,'f0','f1'),'groupselectfirst':lambda s: etl.groupselectfirst(s,'f0'),'groupselectlast':lambda s: etl.groupselectlast(s,'f0'),
 'groupselectmin':lambda s: etl.groupselectmin(s,'f0','f1'),'groupselectmax':lambda s: etl.groupselectmax(s,'f0','f1'),'merge':lambda s: etl.merge(s,E(),key='f0'),'fold':lambda s: etl.fold(s,'f0',lambda a,b:a,value='f1'),
 'filldown':lambda s: etl.filldown(s),'filldown_f':lambda s: etl.filldown(s,'f0'),'fillright':lambda s: etl.fillright(s),'fillleft':lambda s: etl.fillleft(s),
 'capture':lambda s: etl.capture(s,'f1','(.)',['p']),'split':lambda s: etl.split(s,'f1','v',['p','q']),'splitdown':lambda s: etl.splitdown(s,'f1','x'),'sub':lambda s: etl.sub(s,'f1','v','w'),
 'search':lambda s: etl.search(s,'f1','v'),'search_all':lambda s: etl.search(s,'v'),'searchcomplement':lambda s: etl.searchcomplement(s,'f1','zzz'),
 'melt':lambda s: etl.melt(s,'f0'),'recast':lambda s: etl.recast(etl.melt(s,'f0')),'recast_direct':lambda s: etl.recast(etl.setheader(s,['id','variable','value'])),'transpose':lambda s: etl.transpose(s),
 'pivot':lambda s: etl.pivot(s,'f0','f1','f2',list),'flatten':lambda s: etl.flatten(s),'unflatten':lambda s: etl.unflatten(etl.flatten(s),3),'unflatten_f':lambda s: etl.unflatten(s,'f0',2),
 'fieldmap':lambda s: etl.fieldmap(s,{'a':'f0','b':('f1',str.upper)}),'rowmap':lambda s: etl.rowmap(s,lambda r: r, ['a','b','c']),'rowmapmany':lambda s: etl.rowmapmany(s,lambda r: [r], ['a','b','c']),
 'rowgroupmap':lambda s: etl.rowgroupmap(s,'f0',lambda k,rows: rows,header=['f0','f1','f2']),
 'unpack':lambda s: etl.unpack(s,'f1',['p','q']),'unpackdict':lambda s: etl.unpackdict(s,'f1'),'unpackdict_keys':lambda s: etl.unpackdict(s,'f1',keys=['p']),
 'duplicates':lambda s: etl.duplicates(s,'f0'),'duplicates_nokey':lambda s: etl.duplicates(s),'unique':lambda s: etl.unique(s,'f0'),'unique_nokey':lambda s: etl.unique(s),'distinct':lambda s: etl.distinct(s),'distinct_key':lambda s: etl.distinct(s,'f0'),
 'distinct_count':lambda s: etl.distinct(s,count='n'),'conflicts':lambda s: etl.conflicts(s,'f0'),'isunique':lambda s: etl.isunique(s,'f0'),
 'validate':lambda s: etl.validate(s,header=('f0','f1','f2')),
 'values':lambda s: etl.values(s,'f0'),'values2':lambda s: etl.values(s,'f0','f1'),'data':lambda s: etl.data(s),'dicts':lambda s: etl.dicts(s),'records':lambda s: etl.records(s),'namedtuples':lambda s: etl.namedtuples(s),
 'header':lambda s: etl.header(s),'fieldnames':lambda s: etl.fieldnames(s),'nrows':lambda s: etl.nrows(s),'columns':lambda s: etl.columns(s),'facetcolumns':lambda s: etl.facetcolumns(s,'f0'),
 'lookup':lambda s: etl.lookup(s,'f0'),'lookupone':lambda s: etl.lookupone(s,'f0'),'dictlookup':lambda s: etl.dictlookup(s,'f0'),'dictlookupone':lambda s: etl.dictlookupone(s,'f0'),'recordlookup':lambda s: etl.recordlookup(s,'f0'),'recordlookupone':lambda s: etl.recordlookupone(s,'f0'),
 'valuecount':lambda s: etl.valuecount(s,'f0',1),'valuecounter':lambda s: etl.valuecounter(s,'f0'),'valuecounts':lambda s: etl.valuecounts(s,'f0'),'typecounter':lambda s: etl.typecounter(s,'f0'),'typecounts':lambda s: etl.typecounts(s,'f0'),
 'parsecounter':lambda s: etl.parsecounter(s,'f0'),'parsecounts':lambda s: etl.parsecounts(s,'f0'),'stringpatterns':lambda s: etl.stringpatterns(s,'f0'),'stringpatterncounter':lambda s: etl.stringpatterncounter(s,'f0'),'rowlengths':lambda s: etl.rowlengths(s),
 'typeset':lambda s: etl.typeset(s,'f0'),'limits':lambda s: etl.limits(s,'f0'),'stats':lambda s: etl.stats(s,'f0'),
 'look':lambda s: repr(etl.look(s)),'lookall':lambda s: repr(etl.lookall(s)),'see':lambda s: repr(etl.see(s)),'wrap':lambda s: etl.wrap(s),'cache':lambda s: cache(s),'progress':lambda s: etl.progress(s,out=open('/dev/null','w')),'clock':lambda s: etl.clock(s),
 'rowgroupby':lambda s: [(k,list(v)) for k,v in etl.rowgroupby(s,'f0')],'diffheaders':lambda s: etl.diffheaders(s,E2()),'diffvalues':lambda s: etl.diffvalues(s,N(),'f0'),
}
binary={
 'join':lambda a,b: etl.join(a,b,key='f0'),'leftjoin':lambda a,b: etl.leftjoin(a,b,key='f0'),'rightjoin':lambda a,b: etl.rightjoin(a,b,key='f0'),'outerjoin':lambda a,b: etl.outerjoin(a,b,key='f0'),
 'naturaljoin':lambda a,b: etl.join(a,b),'crossjoin':lambda a,b: etl.crossjoin(a,b),'antijoin':lambda a,b: etl.antijoin(a,b,key='f0'),'lookupjoin':lambda a,b: etl.lookupjoin(a,b,key='f0'),
 'hashjoin':lambda a,b: etl.hashjoin(a,b,key='f0'),'hashleftjoin':lambda a,b: etl.hashleftjoin(a,b,key='f0'),'hashrightjoin':lambda a,b: etl.hashrightjoin(a,b,key='f0'),'hashantijoin':lambda a,b: etl.hashantijoin(a,b,key='f0'),'hashlookupjoin':lambda a,b: etl.hashlookupjoin(a,b,key='f0'),
 'annex':lambda a,b: etl.annex(a,b),'cat2':lambda a,b: etl.cat(a,b),'stack2':lambda a,b: etl.stack(a,b),'mergesort2':lambda a,b: etl.mergesort(a,b,key='f0'),'merge2':lambda a,b: etl.merge(a,b,key='f0'),
}
same={
 'complement':lambda a,b: etl.complement(a,b),'complement_strict':lambda a,b: etl.complement(a,b,strict=True),'intersection':lambda a,b: etl.intersection(a,b),'diff':lambda a,b: [list(x) for x in etl.diff(a,b)],
 'recordcomplement':lambda a,b: etl.recordcomplement(a,b),'recorddiff':lambda a,b: [list(x) for x in etl.recorddiff(a,b)],'hashcomplement':lambda a,b: etl.hashcomplement(a,b),'hashintersection':lambda a,b: etl.hashintersection(a,b),
}
def mat(x):
    if isinstance(x,(str,int,float,bool,tuple,dict)) or x is None: return x
    if isinstance(x,list): return x
    if hasattr(x,'__iter__'): return list(iter(x))
    return x
def run(name,f,*args):
    try:
        with warnings.catch_warnings():
            warnings.simplefilter('ignore')
            r=mat(f(*args))
        return 'ok', r
    except BaseException as e:
        return 'RAISED', '%s: %s'%(type(e).__name__, e)
fails=[]
for name,f in unary.items():
    st,r=run(name,f,E())
    st2,r2=run(name,f,N())
    if st2!='ok': print('!! harness bug on nonempty', name, r2)
    if st!='ok': fails.append((name,r))
for name,f in binary.items():
    for a,b,tag in ((E(),N2(),'E,N'),(N(),E2(),'N,E'),(E(),E2(),'E,E')):
        st,r=run(name,f,a,b)
        if st!='ok': fails.append((name+'['+tag+']',r))
    st2,r2=run(name,f,N(),N2())
    if st2!='ok': print('!! harness bug on nonempty', name, r2)
for name,f in same.items():
    for a,b,tag in ((E(),N(),'E,N'),(N(),E(),'N,E'),(E(),E(),'E,E')):
        st,r=run(name,f,a,b)
        if st!='ok': fails.append((name+'['+tag+']',r))
print(len(unary)+len(binary)+len(same),'ops')
for f in fails: print('FAIL',f)
