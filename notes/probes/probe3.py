import itertools, datetime, decimal, random
from petl.comparison import Comparable as C
D=decimal.Decimal
atoms=[None, False, True, 0, 1, -1, 2, 1.0, 0.5, -0.0, float('inf'), D('1'), D('0.5'), D('2.5'), b'', b'a', b'b', '', 'a', 'b', 'A',
       datetime.date(2020,1,1), datetime.date(2021,1,1), datetime.datetime(2020,1,1,0,0), datetime.datetime(2020,6,1), datetime.time(1,2), datetime.time(3,4)]
nest=[(), (1,), (1,2), (None,), (1,None), ('a',), (1,'a'), [1], [1,2], [], ((1,),), ((1,),2), (1,(2,)), ('a',(1,)), [None, 'a'], (b'a',), (1.0,), (True,)]
vals=atoms+nest
def lt(a,b): return C(a)<C(b)
def eq(a,b): return C(a)==C(b)
bad=[]
err=0
for a in vals:
    try:
        if lt(a,a): bad.append(('irreflexive',a))
    except Exception as e: err+=1; bad.append(('raise',a,a,repr(e)))
for a,b in itertools.product(vals,repeat=2):
    try:
        l,g,e=lt(a,b),lt(b,a),eq(a,b)
        if l and g: bad.append(('asym',a,b))
        if (l+g+e)!=1: bad.append(('trichotomy',a,b,l,g,e))
        ca,cb=C(a),C(b)
        if (ca<=cb)!=(l or e): bad.append(('le',a,b))
        if (ca>cb)!=(g): bad.append(('gt',a,b, ca>cb, g))
        if (ca>=cb)!=(not l): bad.append(('ge',a,b))
    except Exception as ex:
        bad.append(('raise',a,b,repr(ex)))
print(len(bad)); 
import collections
print(collections.Counter(b[0] for b in bad))
for b in bad[:40]: print(b)
tb=[]
for a,b,c in itertools.product(vals,repeat=3):
    try:
        if lt(a,b) and lt(b,c) and not lt(a,c): tb.append((a,b,c))
    except Exception: pass
print('trans viol', len(tb)); 
for t in tb[:30]: print(t)
