import random, itertools, functools, tempfile, os
import petl as etl
from petl.comparison import Comparable as C
rnd=random.Random(1)
pool=[None,0,1,2,1.0,True,'a','b',b'a',(1,2),2.5]
def rtable(n, w=3, ragged=True):
    hdr=['f%d'%i for i in range(w)]
    rows=[]
    for i in range(n):
        ln = rnd.choice([w,w,w,w-1,w+1,0]) if ragged else w
        rows.append([rnd.choice(pool) for _ in range(ln)] )
    return [hdr]+rows
def keyf(indices):
    def k(row):
        vals=[row[i] if i < len(row) else None for i in indices]
        return C(vals[0]) if len(indices)==1 else C(tuple(vals))
    return k
def refsort(t, indices, reverse):
    rows=[tuple(r) for r in t[1:]]
    rows=sorted(rows, key=keyf(indices), reverse=reverse)  # stable; reverse keeps input order among equals
    return [tuple(t[0])]+rows
bad=0; n=0
td=tempfile.mkdtemp()
for trial in range(3000):
    nr=rnd.randint(0,7); w=3
    t=rtable(nr,w)
    key=rnd.choice([None,'f0','f1',('f0','f1'),('f2','f0'),0,(1,),['f1']])
    if key is None: idx=list(range(w))
    else:
        ks=key if isinstance(key,(list,tuple)) else (key,)
        idx=[k if isinstance(k,int) else t[0].index(k) for k in ks]
    rev=rnd.random()<0.5
    exp=refsort(t, idx, rev)
    for bs in [None]+list(range(1,nr+3)):
        for cache in (True,False):
            try:
                s=etl.sort(t,key=key,reverse=rev,buffersize=bs,cache=cache,tempdir=td)
                a=list(s); b=list(s)
            except Exception as e:
                a=b=('RAISED',repr(e))
            n+=1
            if a!=exp or b!=exp:
                bad+=1
                if bad<8: print('MISMATCH',t,key,rev,bs,cache,'\n exp',exp,'\n got',a,'\n 2nd',b)
print(n,bad, os.listdir(td))
