import copy, itertools, sys
sys.argv=['x']
import guard
from guard import GuardedList, guard as G, EVENTS
src=open('probe8.py').read().split("def mat(x):")[0]
exec(src)
N=lambda: G([['f0','f1','f2'],[1,'a','x'],[2,'b','y'],[2,'b'],[3,None,'z','extra']])
N2=lambda: G([['f0','g1'],[1,'p'],[3,'q'],[3]])
NS=lambda: G([['f0','f1','f2'],[1,'a','x'],[2,'b','y'],[2,'b','y']])
import warnings
warnings.simplefilter('ignore')
def drive(name,f,*tabs):
    snaps=[copy.deepcopy([list(r) for r in t]) for t in tabs]
    del EVENTS[:]
    res=[]
    for k in (None,2):
        try:
            v=f(*tabs)
            if isinstance(v,(tuple,)) and v and hasattr(v[0],'__iter__') and not isinstance(v[0],(str,tuple,list)): vs=list(v)
            elif isinstance(v,dict) or not hasattr(v,'__iter__') or isinstance(v,str): vs=[]
            else: vs=[v]
            for vv in vs:
                ledger=[]
                for row in itertools.islice(iter(vv),k):
                    ledger.append((row,copy.deepcopy(row)))
                for row,cp in ledger:
                    if row!=cp and not (row!=row): print('DRIFT',name,row,cp)
        except Exception as e:
            res.append('raised %s'%type(e).__name__)
    now=[[list(r) for r in t] for t in tabs]
    if now!=snaps: print('SOURCE CHANGED',name,snaps,now)
    if EVENTS: print('MUTATION',name,EVENTS[0][0],EVENTS[0][1][-300:])
    return res
for name,f in unary.items():
    r=drive(name,f,N())
    if r: print('  note',name,r)
for name,f in binary.items():
    r=drive(name,f,N(),N2())
    if r: print('  note',name,r)
for name,f in same.items():
    r=drive(name,f,NS(),NS())
    if r: print('  note',name,r)
print('done')
