import petl as etl, itertools
from petl.util.materialise import cache
class Src:
    """instrumented source: counts header/data pulls"""
    def __init__(self, n, w=3): self.n=n; self.w=w; self.pulls=0; self.hdr=0; self.iters=0
    def __iter__(self):
        self.iters+=1
        def g():
            self.hdr+=1
            yield tuple('f%d'%i for i in range(self.w))
            for i in range(self.n):
                self.pulls+=1
                yield (i, 'v%d'%(i%7), str(i%3), )
        return g()
def mk_ops():
    ops={}
    ops['cut']=lambda s: etl.cut(s,'f0','f2')
    ops['cutout']=lambda s: etl.cutout(s,'f1')
    ops['cat']=lambda s: etl.cat(s)
    ops['stack']=lambda s: etl.stack(s)
    ops['addfield']=lambda s: etl.addfield(s,'z',lambda r: r.f0)
    ops['addfields']=lambda s: etl.addfields(s,[('z',1)])
    ops['rowslice']=lambda s: etl.rowslice(s,2,None)
    ops['head']=lambda s: etl.head(s,50)
    ops['skipcomments']=lambda s: etl.skipcomments(s,'#')
    ops['movefield']=lambda s: etl.movefield(s,'f2',0)
    ops['annex']=lambda s: etl.annex(s,[['q'],[1]])
    ops['addrownumbers']=lambda s: etl.addrownumbers(s)
    ops['addcolumn']=lambda s: etl.addcolumn(s,'q',[1,2,3])
    ops['addfieldusingcontext']=lambda s: etl.addfieldusingcontext(s,'q',lambda p,c,n: 1)
    ops['rename']=lambda s: etl.rename(s,'f0','g')
    ops['setheader']=lambda s: etl.setheader(s,['a','b','c'])
    ops['extendheader']=lambda s: etl.extendheader(s,['zz'])
    ops['pushheader']=lambda s: etl.pushheader(s,['a','b','c'])
    ops['skip']=lambda s: etl.skip(s,1)
    ops['prefixheader']=lambda s: etl.prefixheader(s,'p')
    ops['suffixheader']=lambda s: etl.suffixheader(s,'p')
    ops['sortheader']=lambda s: etl.sortheader(s)
    ops['convert']=lambda s: etl.convert(s,'f0',str)
    ops['convertall']=lambda s: etl.convertall(s,str)
    ops['convertnumbers']=lambda s: etl.convertnumbers(s)
    ops['replace']=lambda s: etl.replace(s,'f1','v1','X')
    ops['update']=lambda s: etl.update(s,'f1','X')
    ops['format']=lambda s: etl.format(s,'f0','{:03d}')
    ops['interpolate']=lambda s: etl.interpolate(s,'f0','%03d')
    ops['select']=lambda s: etl.select(s,lambda r: True)
    ops['selecteq']=lambda s: etl.selectne(s,'f0',-1)
    ops['selectgt']=lambda s: etl.selectgt(s,'f0',-1)
    ops['selectusingcontext']=lambda s: etl.selectusingcontext(s,lambda p,c,n: True)
    ops['rowlenselect']=lambda s: etl.rowlenselect(s,3)
    ops['filldown']=lambda s: etl.filldown(s)
    ops['fillright']=lambda s: etl.fillright(s)
    ops['fillleft']=lambda s: etl.fillleft(s)
    ops['fieldmap']=lambda s: etl.fieldmap(s,{'a':'f0'})
    ops['rowmap']=lambda s: etl.rowmap(s,lambda r: r, ['a','b','c'])
    ops['rowmapmany']=lambda s: etl.rowmapmany(s,lambda r: [r], ['a','b','c'])
    ops['capture']=lambda s: etl.capture(s,'f1','(.)(.)',['p','q'])
    ops['split']=lambda s: etl.split(s,'f1','v',['p','q'])
    ops['splitdown']=lambda s: etl.splitdown(s,'f1','x')
    ops['sub']=lambda s: etl.sub(s,'f1','v','w')
    ops['search']=lambda s: etl.search(s,'f1','v')
    ops['searchcomplement']=lambda s: etl.searchcomplement(s,'f1','zzz')
    ops['unpack']=lambda s: etl.unpack(etl.convert(s,'f1',lambda v:(v,v)),'f1',['p','q'])
    ops['unpackdict']=lambda s: etl.unpackdict(etl.convert(s,'f1',lambda v:{'p':v}),'f1',keys=['p'])
    ops['melt']=lambda s: etl.melt(s,'f0')
    ops['flatten']=lambda s: etl.flatten(s)
    ops['unflatten']=lambda s: etl.unflatten(etl.flatten(s),3)
    ops['hashjoin']=lambda s: etl.hashjoin(s,[['f0','y'],[0,1],[1,2],[2,3],[3,3],[4,3],[5,5],[6,6],[7,7],[8,8],[9,9],[10,1]],key='f0')
    ops['hashleftjoin']=lambda s: etl.hashleftjoin(s,[['f0','y'],[0,1]],key='f0')
    ops['hashantijoin']=lambda s: etl.hashantijoin(s,[['f0','y'],[0,1]],key='f0')
    ops['hashlookupjoin']=lambda s: etl.hashlookupjoin(s,[['f0','y'],[0,1]],key='f0')
    ops['hashcomplement']=lambda s: etl.hashcomplement(s,[['f0','f1','f2'],[0,1,2]])
    ops['hashintersection']=lambda s: etl.hashintersection(s,s2)
    ops['crossjoin']=lambda s: etl.crossjoin(s,[['y'],[1]])
    ops['values']=lambda s: etl.values(s,'f0')
    ops['data']=lambda s: etl.data(s)
    ops['dicts']=lambda s: etl.dicts(s)
    ops['records']=lambda s: etl.records(s)
    ops['namedtuples']=lambda s: etl.namedtuples(s)
    ops['wrap']=lambda s: etl.wrap(s)
    ops['cache']=lambda s: cache(s)
    ops['progress']=lambda s: etl.progress(s,out=open('/dev/null','w'))
    ops['clock']=lambda s: etl.clock(s)
    ops['fromdicts(dicts)']=lambda s: etl.fromdicts(etl.dicts(s), header=['f0','f1','f2'])
    ops['validate']=lambda s: etl.validate(s, header=('f0','f1','f2'))
    ops['intervaljoin']=None
    return ops
s2=[['f0','f1','f2']]+[(i,'v%d'%(i%7),str(i%3)) for i in range(20)]
for name,op in mk_ops().items():
    if op is None: continue
    res=[]
    for n in (100,10000):
        s=Src(n)
        try:
            v=op(s)
            c0=(s.iters, s.hdr, s.pulls)
            k=5
            got=list(itertools.islice(iter(v),k+1))
            res.append((c0, s.pulls, len(got)))
        except Exception as e:
            res.append(('ERR',repr(e)))
    flag='' if res[0]==res[1] and res[0][0][2]==0 else '   <<<<<<'
    print('%-22s %s %s%s'%(name,res[0],res[1],flag))
