import copy, itertools, sys, gc, random, tempfile, os, pickle, json, sqlite3
import warnings; warnings.simplefilter('ignore')
src=open('probe8.py').read().split("def mat(x):")[0]
exec(src)
import petl as etl
from petl.io.sources import MemorySource
td=tempfile.mkdtemp()
N=lambda: [['f0','f1','f2'],[2,'b','y'],[1,'a','x'],[2,'b','y'],[3,'c','z']]
N2=lambda: [['f0','g1'],[1,'p'],[3,'q'],[3,'r']]
# extra views
csvf=os.path.join(td,'a.csv'); etl.tocsv(N(),csvf)
pkf=os.path.join(td,'a.p'); etl.topickle(N(),pkf)
jsf=os.path.join(td,'a.json'); etl.tojson(N(),jsf)
jlf=os.path.join(td,'a.jsonl'); etl.tojson(N(),jlf,lines=True)
txf=os.path.join(td,'a.txt'); open(txf,'w').write('l1\nl2\nl3\n')
dbf=os.path.join(td,'a.db'); c=sqlite3.connect(dbf); c.execute('create table t (a,b)'); c.executemany('insert into t values (?,?)',[(1,'x'),(2,'y'),(3,'z')]); c.commit(); c.close()
def gen():
    for i in range(4): yield {'a':i,'b':str(i)}
extra={
 'fromcsv':lambda s: etl.fromcsv(csvf),'frompickle':lambda s: etl.frompickle(pkf),'fromjson':lambda s: etl.fromjson(jsf),'fromjsonl':lambda s: etl.fromjson(jlf,lines=True),
 'fromtext':lambda s: etl.fromtext(txf),'fromdb':lambda s: etl.fromdb(dbf,'select * from t'),'fromdicts_list':lambda s: etl.fromdicts(list(gen())),'fromdicts_gen':lambda s: etl.fromdicts(gen()),
 'fromdicts_gen_s2':lambda s: etl.fromdicts(gen(),sample=2),
 'fromcolumns':lambda s: etl.fromcolumns([[1,2,3],['a','b']]),'randomtable':lambda s: etl.randomtable(2,4,seed=3),'dummytable':lambda s: etl.dummytable(4,seed=3),'empty':lambda s: etl.empty(),
 'sort_mem_cache':lambda s: etl.sort(s,'f0'),'sort_mem_nocache':lambda s: etl.sort(s,'f0',cache=False),'sort_file_cache':lambda s: etl.sort(s,'f0',buffersize=2),'sort_file_nocache':lambda s: etl.sort(s,'f0',buffersize=2,cache=False),
 'sort_rev_file':lambda s: etl.sort(s,'f0',buffersize=2,reverse=True),
 'cache_n2':lambda s: cache(s,n=2),'join_buf':lambda s: etl.join(s,N2(),key='f0',buffersize=1),'hashjoin_nocache':lambda s: etl.hashjoin(s,N2(),key='f0',cache=False),
 'distinct_buf':lambda s: etl.distinct(s,buffersize=2),'aggregate_buf':lambda s: etl.aggregate(s,'f0',len,buffersize=2),'valuecounts':lambda s: etl.valuecounts(s,'f0'),
}
skip={'issorted','facet','biselect','unjoin','unjoin_nokey','isunique','header','fieldnames','nrows','columns','facetcolumns','lookup','lookupone','dictlookup','dictlookupone','recordlookup','recordlookupone',
      'valuecount','valuecounter','typecounter','parsecounter','stringpatterncounter','typeset','limits','stats','look','lookall','see','rowgroupby','diffheaders','diffvalues','diff','recorddiff'}
views={}
for k,f in unary.items():
    if k not in skip: views[k]=(f,1)
for k,f in extra.items(): views[k]=(f,1)
for k,f in binary.items(): views[k]=(f,2)
for k,f in same.items():
    if k not in skip: views[k]=(f,3)
def build(name):
    f,ar=views[name]
    if ar==1: return f(N())
    if ar==2: return f(N(),N2())
    return f(N(),[['f0','f1','f2'],[2,'b','y'],[9,'q','q']])
rnd=random.Random(7)
def norm(r):
    try: return tuple(r) if isinstance(r,(list,tuple)) else r
    except Exception: return r
bad={}
for name in views:
    try:
        solo=[norm(r) for r in iter(build(name))]
        solo2=[norm(r) for r in iter(build(name))]
    except Exception as e:
        print('build fail',name,repr(e)); continue
    if solo!=solo2: print('NONDET',name); continue
    L=len(solo)
    scheds=[]
    scheds.append([0,1]*(L+1))
    scheds.append([0]+[1]*(L+1)+[0]*(L+1))
    scheds.append([0]*(L//2+1)+[1]*(L+1)+[0]*(L+1))
    scheds.append([0,0,1,1,1,0,2,2,0,1,2]*(L+1))
    for _ in range(10): scheds.append([rnd.randrange(3) for _ in range(3*L+3)])
    for sc in scheds:
        v=build(name); its={}; got={0:[],1:[],2:[]}; done=set(); err=None
        try:
            for i in sc:
                if i in done: continue
                if i not in its: its[i]=iter(v)
                try: got[i].append(norm(next(its[i])))
                except StopIteration: done.add(i)
            fresh=[norm(r) for r in iter(v)]
        except Exception as e:
            err=repr(e); fresh=None
        ok = err is None and fresh==solo and all(got[i]==solo[:len(got[i])] and (i not in done or len(got[i])==L) for i in got)
        if not ok:
            bad.setdefault(name,(sc[:12],err,got,fresh,solo)); break
print(len(views),'views;', 'violations:', sorted(bad))
for k,v in bad.items(): print(k, v[0], v[1], '\n   got',v[2],'\n   fresh',v[3],'\n   solo',v[4])
