import ast, sys
# print source with docstrings elided, original line numbers kept
for fn in sys.argv[1:]:
    src = open(fn).read()
    lines = src.split('\n')
    tree = ast.parse(src)
    skip = set()
    for node in ast.walk(tree):
        if isinstance(node, (ast.FunctionDef, ast.ClassDef, ast.Module, ast.AsyncFunctionDef)):
            b = node.body
            if b and isinstance(b[0], ast.Expr) and isinstance(getattr(b[0], 'value', None), ast.Constant) and isinstance(b[0].value.value, str):
                for i in range(b[0].lineno, b[0].end_lineno + 1):
                    skip.add(i)
    print('#### ' + fn)
    blank = 0
    for i, l in enumerate(lines, 1):
        if i in skip:
            continue
        if not l.strip():
            blank += 1
            if blank > 1:
                continue
        else:
            blank = 0
        print('%4d %s' % (i, l))
