"""Small helpers shared by all checks: canonical forms, the independent
ordering model, safe materialisation of petl views."""
from __future__ import annotations

import datetime
import functools
import hashlib
import warnings
from decimal import Decimal

NUMERIC = (bool, int, float, Decimal)


# ---------------------------------------------------------------------------
# canonical, type-strict form of cells / rows (1, 1.0, True, Decimal('1') are
# all ==, so plain tuple equality would hide a cell whose type changed)

def canon(v):
    if v is None:
        return ('N',)
    t = type(v)
    if t is bool:
        return ('b', v)
    if t is int:
        return ('i', v)
    if t is float:
        return ('f', repr(v))
    if t is Decimal:
        return ('D', str(v))
    if t is str:
        return ('s', v)
    if t is bytes:
        return ('y', v)
    if t is datetime.datetime:
        return ('dt', v.isoformat())
    if t is datetime.date:
        return ('d', v.isoformat())
    if t is datetime.time:
        return ('t', v.isoformat())
    if isinstance(v, StrSub):
        return ('s', str(v))          # the harness's own str subclass stands for the text it holds
    if isinstance(v, tuple):
        return ('T', tuple(canon(x) for x in v))
    if isinstance(v, list):
        return ('L', tuple(canon(x) for x in v))
    if isinstance(v, dict):
        return ('M', tuple(sorted(((canon(k), canon(x)) for k, x in v.items()), key=repr)))
    if isinstance(v, (set, frozenset)):
        return ('S', type(v).__name__, tuple(sorted((canon(x) for x in v), key=repr)))
    if isinstance(v, BaseException):
        return ('E', type(v).__name__, repr(v.args))
    return ('o', type(v).__name__, repr(v))


def crow(row):
    """canonical form of a row: the row's own container type is irrelevant"""
    return tuple(canon(c) for c in row)


def crows(rows):
    return [crow(r) for r in rows]


def fp(obj):
    return hashlib.sha1(repr(obj).encode('utf-8', 'backslashreplace')).hexdigest()[:16]


# ---------------------------------------------------------------------------
# the reference ordering model of C04, written from the property text:
#   None < numbers < everything else; same type: native order; unrelated
#   types: by type name with bytes before text ('str' < 'unicode', the
#   Python 2 names petl documents); lists/tuples element-wise.

def _typename(v):
    if isinstance(v, bytes):
        return 'str'
    if isinstance(v, str):
        return 'unicode'
    if isinstance(v, (list, tuple)):
        return 'tuple'
    return type(v).__name__


def model_cmp(a, b):
    """-1, 0, 1 under the documented ordering"""
    if a is None and b is None:
        return 0
    if a is None:
        return -1
    if b is None:
        return 1
    an, bn = isinstance(a, NUMERIC), isinstance(b, NUMERIC)
    if an and bn:
        return -1 if a < b else (1 if a > b else 0)
    if an:
        return -1
    if bn:
        return 1
    ta, tb = _typename(a), _typename(b)
    if ta == 'tuple' and tb == 'tuple':
        for x, y in zip(a, b):
            c = model_cmp(x, y)
            if c:
                return c
        return -1 if len(a) < len(b) else (1 if len(a) > len(b) else 0)
    if ta == tb or _natively_comparable(a, b):
        try:
            return -1 if a < b else (1 if a > b else 0)
        except TypeError:
            pass
    return -1 if ta < tb else (1 if ta > tb else 0)


def _natively_comparable(a, b):
    try:
        a < b
        return True
    except TypeError:
        return False


model_key = functools.cmp_to_key(model_cmp)


def model_sorted(rows, keyfn, reverse=False):
    return sorted(rows, key=lambda r: model_key(keyfn(r)), reverse=reverse)


def model_eq(a, b):
    return model_cmp(a, b) == 0


# ---------------------------------------------------------------------------
# materialising petl views without the list()/__len__ trap (DESIGN 2.2)

class Raised(object):
    """outcome of a petl call that raised"""

    def __init__(self, exc, partial=None):
        self.type = type(exc).__name__
        self.text = '%s: %s' % (type(exc).__name__, exc)
        self.partial = partial
        tb = exc.__traceback__
        frames = []
        while tb is not None:
            co = tb.tb_frame.f_code
            frames.append('%s:%d:%s' % (co.co_filename.rsplit('/petl/', 1)[-1], tb.tb_lineno, co.co_name))
            tb = tb.tb_next
        self.where = frames[-4:]

    def __repr__(self):
        return 'Raised(%s @ %s)' % (self.text, ' < '.join(reversed(self.where)))


def rows_of(view, limit=None):
    """rows of a view as tuples; never uses list(view)"""
    out = []
    for r in iter(view):
        out.append(tuple(r) if isinstance(r, (list, tuple)) else r)
        if limit is not None and len(out) > limit:
            break
    return out


def attempt(fn, *a, **k):
    """run fn; returns its value or a Raised.  Only for petl calls whose
    exception is itself the observation."""
    with warnings.catch_warnings():
        warnings.simplefilter('ignore')
        try:
            return fn(*a, **k)
        except Exception as e:  # noqa: the exception is the observation
            r = Raised(e)
            del e
            return r


def attempt_rows(build, limit=None):
    """build() -> view; returns list of row tuples or Raised (with the rows
    delivered before the exception)"""
    out = []
    with warnings.catch_warnings():
        warnings.simplefilter('ignore')
        try:
            for r in iter(build()):
                out.append(tuple(r) if isinstance(r, (list, tuple)) else r)
                if limit is not None and len(out) > limit:
                    break
            return out
        except Exception as e:  # noqa
            r = Raised(e, partial=out)
            del e
            return r


class SecondPassDiffers(Raised):
    """outcome of reading one view twice when the second pass is not the first (reported through the same channel as an
    exception: the judges turn any Raised into a violation)"""

    def __init__(self, first, second):
        self.type = 'SecondPassDiffers'
        self.text = 'SecondPassDiffers: the same view, read again, gave %s after %s' % (
            short(second.text if isinstance(second, Raised) else second, 300), short(first, 300))
        self.partial = first
        self.where = []


TWICE = [0]      # number of views read twice (evidence counter, read by the checks that use attempt_rows_twice)


class StaleAfterEdit(Raised):
    """outcome of reading one view again after its source list was edited in place, when a view built afresh over the edited
    source gives something else"""

    def __init__(self, third, twin):
        self.type = 'StaleAfterEdit'
        self.text = ('StaleAfterEdit: after the source was edited in place (columns reversed, one row added) the view read %s, '
                     'a view built afresh over the edited source %s' % (short(third.text if isinstance(third, Raised) else third, 300),
                                                                         short(twin.text if isinstance(twin, Raised) else twin, 300)))
        self.partial = None
        self.where = []


EDITED = [0]     # number of views re-read after an in-place edit of their source


def attempt_rows_twice(build, live=None):
    """build() -> view; the view is read twice (C01 for the argument forms the catalogue does not vary): returns the rows
    of the first pass, a Raised, or SecondPassDiffers.  With `live` (the plain list-of-lists table the view was built over)
    a third pass follows an in-place edit of that list - the column order reversed in the header and in every row, one row
    added - and must equal what a view built afresh over the edited list returns (a view computes from the current contents
    of its source, pass by pass); the list is restored afterwards"""
    v = attempt(build)
    if isinstance(v, Raised):
        return v
    first = attempt_rows(lambda: v)
    if isinstance(first, Raised):
        return first
    second = attempt_rows(lambda: v)
    TWICE[0] += 1
    if isinstance(second, Raised) or crows(second) != crows(first):
        return SecondPassDiffers(first, second)
    if live is not None and type(live) is list and live and all(type(r) in (list, tuple) for r in live):
        import copy as _copy
        saved = list(live)
        try:
            live[:] = [type(r)(reversed(r)) for r in saved]
            if len(saved) > 1:
                live.append(_copy.deepcopy(live[1]))
            third = attempt_rows(lambda: v)
            tv = attempt(build)
            twin = tv if isinstance(tv, Raised) else attempt_rows(lambda: tv)
            EDITED[0] += 1
            a, b = isinstance(third, Raised), isinstance(twin, Raised)
            if a != b or (not a and crows(third) != crows(twin)) or (a and third.type != twin.type):
                return StaleAfterEdit(third, twin)
        finally:
            live[:] = saved
    return first


def short(obj, n=400):
    s = repr(obj)
    return s if len(s) <= n else s[:n] + '...<%d more>' % (len(s) - n)


def fresh(v):
    """an object equal to v but not identical with it, where the type allows one (a marker such as 'NA' or -999 that the caller
    built separately from the cells that hold it); v itself for None, bool, small ints and other values that only exist once"""
    if isinstance(v, str) and len(v) >= 2:
        return ''.join(list(v))
    if isinstance(v, bytes) and len(v) >= 2:
        return bytes(bytearray(v))
    if isinstance(v, float):
        return float(repr(v))
    if isinstance(v, int) and not isinstance(v, bool) and not -5 <= v <= 256:
        return int(str(v))
    if isinstance(v, tuple) and v:
        return tuple(list(v))
    return v


class StrSub(str):
    """a str subclass (what many libraries hand out: numpy.str_, markupsafe.Markup, enum-mixed strings): it compares natively with str"""
    __slots__ = ()


class DateSub(datetime.date):
    """a date subclass that compares natively with date"""
    __slots__ = ()


def with_subtypes(table, every=2):
    """the same table with every `every`-th str / date cell (header excluded) replaced by an equal instance of a subclass"""
    out, n = [table[0]], 0
    for row in table[1:]:
        new = []
        for c in row:
            if type(c) is str or type(c) is datetime.date:
                n += 1
                if n % every == 0:
                    c = StrSub(c) if type(c) is str else DateSub(c.year, c.month, c.day)
            new.append(c)
        out.append(type(row)(new) if isinstance(row, (list, tuple)) else new)
    return out


def names_as_subtypes(v):
    """the same field selection with every field *name* an instance of a str subclass (positions and other values untouched)"""
    if type(v) is str:
        return StrSub(v)
    if type(v) in (list, tuple):
        return type(v)(names_as_subtypes(x) for x in v)
    return v
