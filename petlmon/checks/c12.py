"""C12  Row- and field-level transforms touch only what they are asked to.

Oracle: one direct cell-by-cell reference per transform and argument form,
written from the docstrings.  Two strengths for ragged rows (DESIGN C12):
'exact' where padding / trimming is documented (the whole output row is
compared), 'frame' where short rows are merely tolerated (one output row per
input row, in order, every cell that exists in the input row arrives unchanged
at its documented position; positions the input row did not have are not
judged).  A WILD marker in the expectation encodes the latter.
"""
from __future__ import annotations

import copy
import itertools
from collections import OrderedDict

import petl

from petlmon import util

ID = 'C12'
LEVEL = 'exploration'
ASSUMPTIONS = ['references follow the docstrings; field resolution: an int below the header length is an index and has priority, names are consumed left to right',
               'functions that align by name (cat, dicts, columns, movefield) get distinct field names; negative field *selection* indices are not generated']
WILD = ('<not judged>',)
WRAP = [lambda t: t]     # C03 re-runs these forms with mutation-guarded inputs by installing probes.guard here


class Form(object):
    def __init__(self, name, gen, ragged='frame', dup=False):
        self.name, self.gen, self.ragged, self.dup = name, gen, ragged, dup


FORMS = OrderedDict()


def form(name, ragged='frame', dup=False):
    def deco(fn):
        FORMS[name] = Form(name, fn, ragged, dup)
        return fn
    return deco


CELLS = [None, 0, 1, 2, 2.5, 'a', 'b', 'ab', '', 'A1', (1, 2), True, 'x y']
TEXT = ['a', 'b', 'ab', '', 'A1', 'x y', 'aa', 'bab']


def _table(rng, ragged=False, dup=False, pool=CELLS, minf=1, maxf=4, maxrows=5):
    nf = rng.randint(minf, maxf)
    hdr = ['f%d' % i for i in range(nf)]
    if dup and nf >= 2 and rng.random() < 0.5:
        hdr[rng.randrange(1, nf)] = hdr[0]
    rows = []
    for _ in range(rng.randint(0, maxrows)):
        r = [rng.choice(pool) for _ in range(nf)]
        if ragged and rng.random() < 0.45:
            if rng.random() < 0.7:
                r = r[:rng.randrange(0, nf + 1)]
            else:
                r = r + [rng.choice(pool)]
        rows.append(r)
    return [hdr] + rows


def _spec(rng, hdr, n=None, allow_dup=True):
    """a field selection: names / indices / mixed (always resolvable: a name is
    only used while an unconsumed field of that name is left)"""
    k = n or rng.randint(1, max(1, len(hdr)))
    out = []
    used = []
    left = [str(h) for h in hdr]
    for _ in range(k):
        i = rng.randrange(len(hdr))
        if not allow_dup and i in used:
            continue
        used.append(i)
        name = str(hdr[i])
        if rng.random() < 0.5 or name not in left:
            out.append(i)
        else:
            out.append(hdr[i])
            left[left.index(name)] = None
    return out


def resolve(hdr, spec):
    flds = [str(h) for h in hdr]
    idx = []
    for s in (spec if isinstance(spec, (list, tuple)) else (spec,)):
        if isinstance(s, int) and not isinstance(s, bool) and s < len(hdr):
            idx.append(s)
        else:
            i = flds.index(s)
            idx.append(i)
            flds[i] = None
    return idx


def cases(ctx):
    rng = ctx.rng('cases')
    names = list(FORMS)
    for i in range(ctx.pick(120000, 1500000)):
        f = FORMS[names[i % len(names)]]
        ragged = f.ragged != 'rect' and rng.random() < 0.4
        t = None
        for _ in range(10):
            c = f.gen(rng, ragged)
            if c is not None:
                break
        if c is None:
            continue
        c['form'] = f.name
        yield c


def _get(row, i, default):
    return row[i] if i < len(row) else default


# ---------------------------------------------------------------------------
# form generators: return {'table': ..., args...}; the judge dispatches on 'form'

@form('cut', ragged='exact', dup=True)
def g_cut(rng, ragged):
    t = _table(rng, ragged, dup=True)
    return {'table': t, 'spec': _spec(rng, t[0]), 'missing': rng.choice([None, 'M']), 'aslist': rng.random() < 0.3}


@form('cutout', dup=True)
def g_cutout(rng, ragged):
    t = _table(rng, ragged, dup=True)
    return {'table': t, 'spec': _spec(rng, t[0], allow_dup=False), 'missing': rng.choice([None, None, 'M', 0])}


@form('movefield')
def g_movefield(rng, ragged):
    t = _table(rng, ragged)
    return {'table': t, 'field': rng.choice(t[0]), 'index': rng.randint(-2, len(t[0]) + 1)}


@form('cat', ragged='exact')
def g_cat(rng, ragged):
    ts = []
    allnames = ['f0', 'f1', 'f2', 'g0', 'g1']
    for ti in range(rng.randint(1, 3)):
        hdr = rng.sample(allnames, rng.randint(1, 3))
        if ti > 0 and rng.random() < 0.25:
            # a later table may repeat a field name: the output is still the *union* of the field names (the name once,
            # taken from the first field of that name)
            hdr.insert(rng.randint(0, len(hdr)), rng.choice(hdr))
        rows = []
        for _ in range(rng.randint(0, 3)):
            r = [rng.choice(CELLS) for _ in hdr]
            if ragged and rng.random() < 0.4:
                r = r[:rng.randrange(len(r) + 1)] if rng.random() < 0.7 else r + ['extra']
            rows.append(r)
        ts.append([hdr] + rows)
    return {'tables': ts, 'missing': rng.choice([None, 'M']), 'header': rng.choice([None, None, rng.sample(allnames, 2), ['zz', 'f0']])}


@form('stack', ragged='exact')
def g_stack(rng, ragged):
    ts = [_table(rng, ragged, maxrows=3) for _ in range(rng.randint(1, 3))]
    return {'tables': ts, 'missing': rng.choice([None, 'M']), 'trim': rng.random() < 0.7, 'pad': rng.random() < 0.7}


@form('annex')
def g_annex(rng, ragged):
    ts = [_table(rng, ragged, maxrows=4, maxf=2) for _ in range(rng.randint(2, 3))]
    for j, t in enumerate(ts):
        t[0] = ['t%d%s' % (j, h) for h in t[0]]
    return {'tables': ts, 'missing': rng.choice([None, 'M'])}


@form('addfield')
def g_addfield(rng, ragged):
    t = _table(rng, ragged)
    return {'table': t, 'field': 'new', 'value': rng.choice(['CONST', 0, None, 'callable']), 'index': rng.choice([None, 0, 1, -1, -2, 99, len(t[0])]),
            'missing': rng.choice([None, 'M'])}


@form('addfields')
def g_addfields(rng, ragged):
    t = _table(rng, ragged)
    defs = []
    for j in range(rng.randint(1, 3)):
        d = ['n%d' % j, rng.choice(['C', 7, 'callable'])]
        if rng.random() < 0.5:
            d.append(rng.choice([0, 1, -1, 99]))
        defs.append(d)
    return {'table': t, 'defs': defs, 'missing': rng.choice([None, 'M'])}


@form('addcolumn', ragged='rect')
def g_addcolumn(rng, ragged):
    t = _table(rng, False)
    n = len(t) - 1
    # the column may itself hold None, or the very value given as `missing`: real values, not "column exhausted"
    return {'table': t, 'field': 'col', 'col': [rng.choice(['c%d' % i, 'c%d' % i, None, 'M']) for i in range(rng.choice([n, n, max(0, n - 1), n + 2, 0]))],
            'index': rng.choice([None, 0, 1, -1, 99]), 'missing': rng.choice([None, 'M'])}


@form('addrownumbers')
def g_addrownumbers(rng, ragged):
    return {'table': _table(rng, ragged), 'start': rng.choice([1, 0, 5, -1]), 'step': rng.choice([1, 2, -1]), 'field': rng.choice(['row', 'n'])}


@form('addfieldusingcontext')
def g_afuc(rng, ragged):
    # short, blank and long rows too: each is still one row of context and one output row
    return {'table': _table(rng, ragged, pool=[0, 1, 2, 3, 5])}


@form('rename', dup=True)
def g_rename(rng, ragged):
    t = _table(rng, ragged, dup=True)
    hdr = t[0]
    mode = rng.choice(['pair', 'dict', 'index', 'chain', 'nonstrict'])
    if mode == 'pair':
        spec = [[rng.choice(hdr), 'R']]
    elif mode == 'index':
        spec = [[rng.randrange(len(hdr)), 'R']]
    elif mode == 'chain' and len(set(hdr)) >= 2:
        a, b = list(dict.fromkeys(hdr))[:2]
        spec = [[a, b], [b, rng.choice([a, 'c'])]]
    elif mode == 'nonstrict':
        spec = [[rng.choice(hdr), 'R'], ['nosuch', 'X'], [17, 'Y']]
    else:
        spec = [[h, 'R%d' % j] for j, h in enumerate(dict.fromkeys(hdr)) if rng.random() < 0.6] or [[hdr[0], 'R']]
    return {'table': t, 'spec': spec, 'mode': mode}


@form('setheader')
def g_setheader(rng, ragged):
    t = _table(rng, ragged)
    return {'table': t, 'header': ['h%d' % i for i in range(rng.randint(0, len(t[0]) + 1))]}


@form('extendheader')
def g_extendheader(rng, ragged):
    return {'table': _table(rng, ragged), 'fields': ['x%d' % i for i in range(rng.randint(0, 2))]}


@form('pushheader')
def g_pushheader(rng, ragged):
    t = _table(rng, ragged)
    return {'table': t, 'header': ['h%d' % i for i in range(max(2, len(t[0])))], 'positional': rng.random() < 0.4}


@form('prefixheader')
def g_prefix(rng, ragged):
    return {'table': _table(rng, ragged), 'affix': rng.choice(['p_', '', 7]), 'suffix': rng.random() < 0.5}


@form('sortheader')
def g_sortheader(rng, ragged):
    t = _table(rng, ragged)
    hdr = ['c', 'a', 'd', 'b'][:len(t[0])]
    rng.shuffle(hdr)
    t[0] = hdr
    return {'table': t, 'reverse': rng.random() < 0.4, 'missing': rng.choice([None, 'M'])}


@form('convert', dup=True)
def g_convert(rng, ragged):
    t = _table(rng, ragged, dup=True)
    hdr = t[0]
    mode = rng.choice(['one', 'several', 'dict', 'translate', 'index', 'where', 'passrow', 'method', 'methods', 'all', 'replace', 'replaceall', 'update', 'format',
                       'interpolate', 'listspec', 'formatall', 'interpolateall', 'all', 'replaceall', 'convertnumbers'])
    c = {'table': t, 'mode': mode}
    if mode == 'convertnumbers':
        for r in t[1:]:
            r[:] = [rng.choice(['1', '2.5', '3+1j', 'x', None, 7, '', ' 4 ', '-0', '1e3', 'ab']) for _ in r]
        c['strict'] = rng.random() < 0.4
    if mode in ('one', 'where', 'passrow', 'replace', 'update', 'format', 'interpolate', 'translate', 'method'):
        c['field'] = rng.choice(hdr) if rng.random() < 0.7 else rng.randrange(len(hdr))
    elif mode in ('several',):
        c['field'] = _spec(rng, hdr, allow_dup=False)
    elif mode == 'index':
        c['field'] = rng.randrange(len(hdr))
    elif mode in ('dict', 'methods'):
        c['fields'] = list(dict.fromkeys(_spec(rng, hdr, allow_dup=False)))
    if mode == 'methods':
        # several fields, each with its own method-name converter (a bare name, a name with arguments as tuple or list)
        for r in t[1:]:
            r[:] = [rng.choice(TEXT) for _ in r]
    if mode == 'method':
        # method-name converters need string cells in that column
        fi = resolve(hdr, c['field'])[0]
        for r in t[1:]:
            if fi < len(r):
                r[fi] = rng.choice(TEXT)
    if mode in ('where', 'update'):
        c['where'] = rng.choice(['len', 'expr', None]) if mode == 'update' else rng.choice(['len', 'expr'])
    if mode in ('all', 'replaceall', 'formatall', 'interpolateall', 'replace', 'format', 'interpolate', 'convertnumbers'):
        c['where'] = rng.choice([None, 'len', 'expr'])
    c['a'], c['b'] = rng.choice(CELLS), rng.choice(['NEW', None, 0])
    return c


@form('filldown', ragged='rect')
def g_filldown(rng, ragged):
    m = rng.choice([None, None, '', 0, 'NA', -999, -999.0, (None,)])
    t = _table(rng, False, pool=[None, None, 1, 'a', '', 0] + ([m, m] if m not in (None, '', 0) else []) + ([-999] if m == -999.0 else []))
    return {'table': t, 'fields': rng.choice([None, None, _spec(rng, t[0], allow_dup=False)]), 'missing': m}


@form('fillright', ragged='exact')
def g_fillright(rng, ragged):
    m = rng.choice([None, None, '', 0, 'NA', -999, -999.0, (None,)])
    return {'table': _table(rng, ragged, pool=[None, None, 1, 'a', '', 0] + ([m, m] if m not in (None, '', 0) else []) + ([-999] if m == -999.0 else [])),
            'missing': m, 'left': rng.random() < 0.5}


@form('fieldmap')
def g_fieldmap(rng, ragged):
    t = _table(rng, False, pool=[0, 1, 2, 5, 'a', 'ab'], minf=2)
    return {'table': t, 'failsafe': True, 'suffix': rng.random() < 0.3}


@form('rowmap', ragged='rect')
def g_rowmap(rng, ragged):
    return {'table': _table(rng, False, minf=2), 'many': rng.random() < 0.5}


@form('sub', ragged='rect')
def g_sub(rng, ragged):
    t = _table(rng, False, pool=TEXT)
    return {'table': t, 'field': rng.choice(t[0]) if rng.random() < 0.7 else rng.randrange(len(t[0])), 'pattern': rng.choice(['a', 'b+', '^.', ' ', 'A', 'X|B+']),
            'repl': rng.choice(['X', '', r'<\g<0>>']), 'count': rng.choice([0, 0, 1]), 'flags': rng.choice([0, 0, 2])}      # 2 = re.IGNORECASE


@form('values', ragged='exact', dup=True)
def g_values(rng, ragged):
    t = _table(rng, ragged, dup=True)
    return {'table': t, 'spec': _spec(rng, t[0], n=rng.choice([1, 1, 2, 3])), 'missing': rng.choice([None, 'M']), 'positional': rng.random() < 0.5}


@form('accessors', ragged='exact')
def g_accessors(rng, ragged):
    return {'table': _table(rng, ragged), 'missing': rng.choice([None, 'M']), 'which': rng.choice(['data', 'dicts', 'records', 'namedtuples', 'columns'])}


RULE = ('cases = (transform form, table, arguments); %d forms covering cut, cutout, movefield, cat, stack, annex, addfield(s), addcolumn, addrownumbers, '
        'addfieldusingcontext, rename / setheader / extendheader / pushheader / prefix- / suffixheader / sortheader, convert in 15 argument forms '
        '(callable, several fields, dict, translation dict, index, where, pass_row, method name, convertall, replace, replaceall, update, format, '
        'interpolate, list spec), filldown / fillright / fillleft, fieldmap, rowmap / rowmapmany, sub, values and the data / dicts / records / '
        'namedtuples / columns accessors; seeded random tables of 0-5 rows x 1-4 fields, ragged rows (40 %% of cases where the form tolerates them), '
        'duplicate field names where resolution is by the index/name rule, field selection by name / index / mixed, negative and out-of-range '
        'insertion indices. Non-trivial: >= 2 data rows. Distinct = SHA-1 of the case.' % len(FORMS))
REQUIRED = ['views-read-twice', 'convert:several-method-name-converters-in-one-call', 'field-names-given-as-str-subclass-instances', 'views-re-read-after-an-in-place-edit-of-the-source', 'marker-equal-but-not-identical'] + ['form:' + f for f in FORMS] + ['ragged-judged', 'duplicate-names-judged', 'frame-condition-used', 'exact-comparison-used',
                                           'negative-or-out-of-range-insertion-index', 'cat:repeated-field-name-in-a-later-table',
                                           'fieldmap:suffix-notation-two-views']


# ---------------------------------------------------------------------------

def _match(got, exp):
    """exp rows may contain WILD (not judged) cells"""
    if len(got) != len(exp):
        return False
    for g, e in zip(got, exp):
        if WILD in [c for c in e if c is WILD]:
            # every judged cell must be present and equal; length is not judged beyond them
            for i, c in enumerate(e):
                if c is WILD:
                    continue
                if i >= len(g) or util.canon(g[i]) != util.canon(c):
                    return False
        elif util.crow(g) != util.crow(e):
            return False
    return True


def _report(got, exp, what, case):
    if isinstance(got, util.Raised):
        return {'kind': 'exception', 'fn': what, 'detail': got.text, 'where': got.where}
    if not _match(got, exp):
        show = [tuple('*' if c is WILD else c for c in r) for r in exp]
        return {'kind': 'output-differs', 'fn': what, 'expected': show, 'observed': got}
    return None


def _ins(lst, index, v):
    lst = list(lst)
    lst.insert(index if index is not None else len(lst), v)
    return lst


def judge(case, ctx):
    name = case['form']
    ctx.op('form:' + name)
    f = FORMS[name]
    if 'table' in case:
        table = WRAP[0](copy.deepcopy(case['table']))
        hdr, rows = table[0], [tuple(r) for r in table[1:]]
        tabs = [table]
    else:
        tabs = [WRAP[0](t) for t in copy.deepcopy(case['tables'])]
        table = tabs[0]
        hdr, rows = table[0], [tuple(r) for r in table[1:]]
    nrows = sum(len(t) - 1 for t in tabs)
    if nrows >= 2:
        ctx.mark_nontrivial()
    is_ragged = any(len(r) != len(t[0]) for t in tabs for r in t[1:])
    if is_ragged:
        ctx.seen('ragged-judged')
    if any(len(set(map(str, t[0]))) < len(t[0]) for t in tabs):
        ctx.seen('duplicate-names-judged')
    frame = is_ragged and f.ragged == 'frame'
    ctx.seen('frame-condition-used' if frame else 'exact-comparison-used')
    J = globals()['j_' + name.replace('-', '_')]
    if int(util.fp(case)[6:8], 16) % 7 == 0:
        # field names handed over as instances of a str subclass (what numpy, enum mix-ins, markup libraries give out)
        case = dict(case)
        for k_ in ('spec', 'field', 'fields', 'key', 'include', 'exclude'):
            if k_ in case and k_ != 'field' or (k_ == 'field' and isinstance(case.get(k_), (str, list, tuple)) and name in ('cut', 'cutout', 'movefield', 'convert', 'replace', 'update', 'filldown')):
                case[k_] = util.names_as_subtypes(case[k_])
        ctx.seen('field-names-given-as-str-subclass-instances')
    LIVE[0] = table if type(table) is list else None
    e0 = util.EDITED[0]
    try:
        return J(case, ctx, table, hdr, rows, tabs, frame)
    finally:
        LIVE[0] = None
        if util.EDITED[0] != e0:
            ctx.seen('views-re-read-after-an-in-place-edit-of-the-source', util.EDITED[0] - e0)


LIVE = [None]      # the plain list the current case's view is built over (None when C03 has wrapped it in mutation guards)


def _run(fn):
    return util.attempt_rows_twice(fn, live=LIVE[0])


def j_cut(case, ctx, table, hdr, rows, tabs, frame):
    spec, missing = case['spec'], case['missing']
    idx = resolve(hdr, spec)
    exp = [tuple(hdr[i] for i in idx)] + [tuple(_get(r, i, missing) for i in idx) for r in rows]
    kw = {'missing': missing} if missing is not None else {}
    got = _run(lambda: petl.cut(table, list(spec), **kw) if case['aslist'] else petl.cut(table, *spec, **kw))
    return _report(got, exp, 'cut', case)


def j_cutout(case, ctx, table, hdr, rows, tabs, frame):
    out = resolve(hdr, case['spec'])
    keep = [i for i in range(len(hdr)) if i not in out]
    missing = case.get('missing')
    # like cut: a kept cell that a short row lacks is filled with `missing` (the view takes the same keyword)
    exp = [tuple(hdr[i] for i in keep)] + [tuple(_get(r, i, missing) for i in keep) for r in rows]
    kw = {'missing': missing} if missing is not None else {}
    return _report(_run(lambda: petl.cutout(table, *case['spec'], **kw)), exp, 'cutout', case)


def j_movefield(case, ctx, table, hdr, rows, tabs, frame):
    field, index = case['field'], case['index']
    fi = hdr.index(field)
    order = [i for i in range(len(hdr)) if i != fi]
    order.insert(index, fi)
    if index < 0 or index > len(hdr):
        ctx.seen('negative-or-out-of-range-insertion-index')
    exp = [tuple(hdr[i] for i in order)] + [tuple(_get(r, i, WILD) for i in order) for r in rows]
    return _report(_run(lambda: petl.movefield(table, field, index)), exp, 'movefield', case)


def j_cat(case, ctx, table, hdr, rows, tabs, frame):
    missing, header = case['missing'], case['header']
    if header is None:
        outhdr = []
        for t in tabs:
            for h in t[0]:
                if h not in outhdr:
                    outhdr.append(h)
    else:
        outhdr = list(header)
    if any(len(set(t[0])) < len(t[0]) for t in tabs[1:]):
        ctx.seen('cat:repeated-field-name-in-a-later-table')
    exp = [tuple(outhdr)]
    for t in tabs:
        h = t[0]
        for r in t[1:]:
            exp.append(tuple((r[h.index(x)] if (x in h and h.index(x) < len(r)) else missing) for x in outhdr))
    kw = {}
    if missing is not None:
        kw['missing'] = missing
    if header is not None:
        kw['header'] = header
    return _report(_run(lambda: petl.cat(*tabs, **kw)), exp, 'cat', case)


def j_stack(case, ctx, table, hdr, rows, tabs, frame):
    missing, trim, pad = case['missing'], case['trim'], case['pad']
    n = len(hdr)
    exp = [tuple(hdr)]
    for t in tabs:
        for r in t[1:]:
            o = tuple(r)
            if trim:
                o = o[:n]
            if pad and len(o) < n:
                o = o + (missing,) * (n - len(o))
            exp.append(o)
    kw = {'trim': trim, 'pad': pad}
    if missing is not None:
        kw['missing'] = missing
    return _report(_run(lambda: petl.stack(*tabs, **kw)), exp, 'stack', case)


def j_annex(case, ctx, table, hdr, rows, tabs, frame):
    missing = case['missing']
    outhdr = tuple(h for t in tabs for h in t[0])
    n = max(len(t) - 1 for t in tabs)
    exp = [outhdr]
    for i in range(n):
        o = []
        for t in tabs:
            w = len(t[0])
            if i + 1 < len(t):
                r = tuple(t[i + 1])[:w]
                o.extend(r + (missing,) * (w - len(r)))
            else:
                o.extend([missing] * w)
        exp.append(tuple(o))
    kw = {'missing': missing} if missing is not None else {}
    return _report(_run(lambda: petl.annex(*tabs, **kw)), exp, 'annex', case)


def _sq(r, n, missing):
    r = tuple(r)[:n]
    return r + (missing,) * (n - len(r))


def j_addfield(case, ctx, table, hdr, rows, tabs, frame):
    field, value, index, missing = case['field'], case['value'], case['index'], case['missing']
    if index is not None and (index < 0 or index > len(hdr)):
        ctx.seen('negative-or-out-of-range-insertion-index')
    fn = (lambda rec: ('calc', rec[0])) if value == 'callable' else value
    exp = [tuple(_ins(hdr, index, field))]
    for r in rows:
        sq = _sq(r, len(hdr), missing)
        v = ('calc', sq[0]) if value == 'callable' else value
        exp.append(tuple(_ins(sq, index, v)))
    kw = {}
    if index is not None:
        kw['index'] = index
    if missing is not None:
        kw['missing'] = missing
    return _report(_run(lambda: petl.addfield(table, field, fn, **kw)), exp, 'addfield', case)


def j_addfields(case, ctx, table, hdr, rows, tabs, frame):
    defs, missing = case['defs'], case['missing']
    pdefs = []
    for d in defs:
        v = (lambda rec: ('calc', rec[0])) if d[1] == 'callable' else d[1]
        pdefs.append((d[0], v) if len(d) == 2 else (d[0], v, d[2]))
    oh = list(hdr)
    plan = []
    for d in defs:
        ix = len(oh) if len(d) == 2 else d[2]
        if len(d) == 3 and (d[2] < 0 or d[2] > len(oh)):
            ctx.seen('negative-or-out-of-range-insertion-index')
        oh.insert(ix, d[0])
        plan.append((d[1], ix))
    exp = [tuple(oh)]
    for r in rows:
        sq = list(_sq(r, len(hdr), missing))
        first = sq[0] if sq else None
        for v, ix in plan:
            sq.insert(ix, ('calc', first) if v == 'callable' else v)
        exp.append(tuple(sq))
    kw = {'missing': missing} if missing is not None else {}
    return _report(_run(lambda: petl.addfields(table, pdefs, **kw)), exp, 'addfields', case)


def j_addcolumn(case, ctx, table, hdr, rows, tabs, frame):
    field, col, index, missing = case['field'], case['col'], case['index'], case['missing']
    if index is not None and (index < 0 or index > len(hdr)):
        ctx.seen('negative-or-out-of-range-insertion-index')
    exp = [tuple(_ins(hdr, index, field))]
    for i in range(max(len(rows), len(col))):
        r = rows[i] if i < len(rows) else (missing,) * len(hdr)
        v = col[i] if i < len(col) else missing
        exp.append(tuple(_ins(r, index, v)))
    kw = {}
    if index is not None:
        kw['index'] = index
    if missing is not None:
        kw['missing'] = missing
    return _report(_run(lambda: petl.addcolumn(table, field, col, **kw)), exp, 'addcolumn', case)


def j_addrownumbers(case, ctx, table, hdr, rows, tabs, frame):
    start, step, field = case['start'], case['step'], case['field']
    exp = [(field,) + tuple(hdr)] + [(start + i * step,) + tuple(r) for i, r in enumerate(rows)]
    return _report(_run(lambda: petl.addrownumbers(table, start, step, field)), exp, 'addrownumbers', case)


def j_addfieldusingcontext(case, ctx, table, hdr, rows, tabs, frame):
    w = len(hdr)

    def first(r):
        return r[0] if len(r) else 7

    def q(prv, cur, nxt):
        # prv carries the value computed for it at the position its own length gave it
        return (0 if prv is None else prv[len(prv) - 1]) + first(cur) + (0 if nxt is None else 100 * first(nxt))
    exp = [tuple(hdr) + ('acc',)]
    acc = 0
    for i, r in enumerate(rows):
        acc = acc + first(r) + (100 * first(rows[i + 1]) if i + 1 < len(rows) else 0)
        exp.append(tuple(r) + ((acc,) if len(r) == w or not frame else (WILD,)))
    return _report(_run(lambda: petl.addfieldusingcontext(table, 'acc', q)), exp, 'addfieldusingcontext', case)


def j_rename(case, ctx, table, hdr, rows, tabs, frame):
    spec, mode = case['spec'], case['mode']
    d = OrderedDict((k, v) for k, v in spec)
    flds = [str(h) for h in hdr]
    outhdr = [d[i] if i in d else (d[f] if f in d else f) for i, f in enumerate(flds)]
    exp = [tuple(outhdr)] + [tuple(r) for r in rows]
    if mode in ('pair', 'index'):
        got = _run(lambda: petl.rename(table, spec[0][0], spec[0][1]))
    elif mode == 'nonstrict':
        got = _run(lambda: petl.rename(table, dict(d), strict=False))
    else:
        got = _run(lambda: petl.rename(table, d))
    return _report(got, exp, 'rename', case)


def j_setheader(case, ctx, table, hdr, rows, tabs, frame):
    exp = [tuple(case['header'])] + [tuple(r) for r in rows]
    return _report(_run(lambda: petl.setheader(table, case['header'])), exp, 'setheader', case)


def j_extendheader(case, ctx, table, hdr, rows, tabs, frame):
    exp = [tuple(hdr) + tuple(case['fields'])] + [tuple(r) for r in rows]
    return _report(_run(lambda: petl.extendheader(table, case['fields'])), exp, 'extendheader', case)


def j_pushheader(case, ctx, table, hdr, rows, tabs, frame):
    h = case['header']
    exp = [tuple(h), tuple(hdr)] + [tuple(r) for r in rows]
    if case['positional']:
        got = _run(lambda: petl.pushheader(table, *h))
    else:
        got = _run(lambda: petl.pushheader(table, h))
    return _report(got, exp, 'pushheader', case)


def j_prefixheader(case, ctx, table, hdr, rows, tabs, frame):
    a = case['affix']
    if case['suffix']:
        exp = [tuple(str(h) + str(a) for h in hdr)] + [tuple(r) for r in rows]
        got = _run(lambda: petl.suffixheader(table, a))
    else:
        exp = [tuple(str(a) + str(h) for h in hdr)] + [tuple(r) for r in rows]
        got = _run(lambda: petl.prefixheader(table, a))
    return _report(got, exp, 'suffixheader' if case['suffix'] else 'prefixheader', case)


def j_sortheader(case, ctx, table, hdr, rows, tabs, frame):
    order = sorted(range(len(hdr)), key=lambda i: hdr[i], reverse=case['reverse'])
    exp = [tuple(hdr[i] for i in order)] + [tuple(_get(r, i, WILD) for i in order) for r in rows]
    kw = {'reverse': case['reverse']}
    if case['missing'] is not None:
        kw['missing'] = case['missing']
    return _report(_run(lambda: petl.sortheader(table, **kw)), exp, 'sortheader', case)


def j_convert(case, ctx, table, hdr, rows, tabs, frame):
    mode = case['mode']
    a, b = case['a'], case['b']
    flds = [str(h) for h in hdr]

    def fidx(f):
        return f if isinstance(f, int) else flds.index(f)
    conv = lambda v: ('C', v)  # noqa: E731
    where = None
    kw = {}
    if case.get('where') == 'len':
        where = lambda r: len(r) % 2 == 0  # noqa: E731
        kw['where'] = where
    elif case.get('where') == 'expr':
        where = lambda r: r[0] is not None if len(r) else False  # noqa: E731
        kw['where'] = lambda r: r['f0'] is not None
        if flds[0] != 'f0':
            return None
    targets = {}
    if mode in ('one', 'index', 'where'):
        targets = {fidx(case['field']): conv}
        call = lambda: petl.convert(table, case['field'], conv, **kw)  # noqa: E731
    elif mode == 'several':
        fs = case['field']
        targets = {i: conv for i in [fidx(x) for x in fs]}
        call = lambda: petl.convert(table, fs, conv)  # noqa: E731
    elif mode == 'dict':
        fs = case['fields']
        convs = [conv, (lambda v: ('D', v)), {a: b}]
        spec = OrderedDict()
        for j, x in enumerate(fs):
            c = convs[j % 3]
            spec[x] = c
            targets[fidx(x)] = c if callable(c) else (lambda v, c=c: _translate(c, v))
        call = lambda: petl.convert(table, spec)  # noqa: E731
    elif mode == 'listspec':
        convs = [conv, None, (lambda v: ('D', v)), None][:len(hdr)]
        targets = {i: c for i, c in enumerate(convs) if c is not None}
        call = lambda: petl.convert(table, convs)  # noqa: E731
    elif mode == 'translate':
        targets = {fidx(case['field']): (lambda v: _translate({a: b}, v))}
        call = lambda: petl.convert(table, case['field'], {a: b})  # noqa: E731
    elif mode == 'methods':
        forms = [('upper', lambda v: v.upper()), (('replace', 'a', 'Z'), lambda v: v.replace('a', 'Z')), (['ljust', 4, '.'], lambda v: v.ljust(4, '.')),
                 ('title', lambda v: v.title())]
        spec = OrderedDict()
        for j, x in enumerate(case['fields']):
            spec[x] = forms[j % 4][0]
            targets[fidx(x)] = forms[j % 4][1]
        if len(spec) >= 2:
            ctx.seen('convert:several-method-name-converters-in-one-call')
        call = lambda: petl.convert(table, spec)  # noqa: E731
    elif mode == 'method':
        targets = {fidx(case['field']): (lambda v: v.replace('a', 'Z'))}
        call = lambda: petl.convert(table, case['field'], 'replace', 'a', 'Z')  # noqa: E731
    elif mode == 'passrow':
        targets = {fidx(case['field']): 'passrow'}
        call = lambda: petl.convert(table, case['field'], lambda v, row: ('P', v, len(row)), pass_row=True)  # noqa: E731
    elif mode == 'all':
        targets = {i: conv for i in range(len(hdr))}
        call = lambda: petl.convertall(table, conv, **kw)  # noqa: E731
    elif mode == 'convertnumbers':
        strict = case['strict']

        def num(v):
            for T in (int, float, complex):
                try:
                    return T(v)
                except (ValueError, TypeError):
                    pass
            return None if strict else v      # strict: the parser raises, and under the default failonerror the cell gets errorvalue (None)
        targets = {i: num for i in range(len(hdr))}
        call = lambda: petl.convertnumbers(table, strict=strict, **kw)  # noqa: E731
        ctx.seen('convertnumbers')
    elif mode == 'formatall':
        targets = {i: (lambda v: '<{}>'.format(v)) for i in range(len(hdr))}
        call = lambda: petl.formatall(table, '<{}>', **kw)  # noqa: E731
    elif mode == 'interpolateall':
        targets = {i: (lambda v: '<%s>' % (v,)) for i in range(len(hdr))}
        call = lambda: petl.interpolateall(table, '<%s>', **kw)  # noqa: E731
        if any(isinstance(v, tuple) for r in rows for v in r):
            return None
    elif mode == 'replace':
        targets = {fidx(case['field']): (lambda v: _translate({a: b}, v))}
        call = lambda: petl.replace(table, case['field'], a, b, **kw)  # noqa: E731
    elif mode == 'replaceall':
        targets = {i: (lambda v: _translate({a: b}, v)) for i in range(len(hdr))}
        call = lambda: petl.replaceall(table, a, b, **kw)  # noqa: E731
    elif mode == 'update':
        targets = {fidx(case['field']): (lambda v: b)}
        call = lambda: petl.update(table, case['field'], b, **kw)  # noqa: E731
    elif mode == 'format':
        targets = {fidx(case['field']): (lambda v: '<{}>'.format(v))}
        call = lambda: petl.format(table, case['field'], '<{}>', **kw)  # noqa: E731
    elif mode == 'interpolate':
        targets = {fidx(case['field']): (lambda v: '<%s>' % (v,))}
        call = lambda: petl.interpolate(table, case['field'], '<%s>', **kw)  # noqa: E731
        if any(isinstance(_get(r, fidx(case['field']), None), tuple) for r in rows):
            return None      # '%s' % (1, 2) is a formatting error of the user's format string, not of petl
    exp = [tuple(hdr)]
    for r in rows:
        if where is not None and not where(r):
            exp.append(tuple(r))
            continue
        o = []
        for i, v in enumerate(r):
            t = targets.get(i)
            if t is None:
                o.append(v)
            elif t == 'passrow':
                o.append(('P', v, len(r)))
            else:
                o.append(t(v))
        exp.append(tuple(o))
    return _report(_run(call), exp, 'convert:' + mode, case)


def _translate(d, v):
    try:
        return d[v] if v in d else v
    except TypeError:
        return v


def j_filldown(case, ctx, table, hdr, rows, tabs, frame):
    fields, missing = case['fields'], case['missing']
    idx = resolve(hdr, fields) if fields else list(range(len(hdr)))
    exp = [tuple(hdr)]
    fill = None
    for r in rows:
        if fill is None:
            fill = list(r)
            exp.append(tuple(r))
            continue
        o = list(r)
        for i in idx:
            if r[i] == missing:
                o[i] = fill[i]
            else:
                fill[i] = r[i]
        exp.append(tuple(o))
    kw = {'missing': util.fresh(missing)} if missing is not None else {}     # the caller's marker equals the cells, it is not the same object
    if missing is not None and util.fresh(missing) is not missing:
        ctx.seen('marker-equal-but-not-identical')
    got = _run(lambda: petl.filldown(table, *(fields or []), **kw))
    return _report(got, exp, 'filldown', case)


def j_fillright(case, ctx, table, hdr, rows, tabs, frame):
    missing, left = case['missing'], case['left']
    exp = [tuple(hdr)]
    for r in rows:
        o = list(reversed(r)) if left else list(r)
        for i in range(1, len(o)):
            if o[i] == missing and o[i - 1] != missing:
                o[i] = o[i - 1]
        exp.append(tuple(reversed(o)) if left else tuple(o))
    kw = {'missing': util.fresh(missing)} if missing is not None else {}
    fn = petl.fillleft if left else petl.fillright
    return _report(_run(lambda: fn(table, **kw)), exp, 'fillleft' if left else 'fillright', case)


def j_fieldmap(case, ctx, table, hdr, rows, tabs, frame):
    m = OrderedDict()
    m['same'] = hdr[0]
    m['byindex'] = 1
    m['fn'] = (hdr[0], lambda v: ('F', v))
    m['dict'] = (hdr[1], {1: 'one', 'a': 'A'})
    m['expr'] = '{%s} == {%s}' % (hdr[0], hdr[1])
    m['rec'] = lambda rec: (rec[0], rec[hdr[1]])
    exp = [tuple(m.keys())]
    for r in rows:
        exp.append((r[0], r[1], ('F', r[0]), {1: 'one', 'a': 'A'}.get(r[1], r[1]) if not isinstance(r[1], (list, dict)) else r[1], r[0] == r[1], (r[0], r[1])))
    if case.get('suffix'):
        # the suffix notation on views created without a mappings argument: every view has its own, initially empty, mapping
        ctx.seen('fieldmap:suffix-notation-two-views')

        def build_two():
            v1 = petl.fieldmap(table)
            v2 = petl.fieldmap(table)
            for k_, v_ in m.items():
                v1[k_] = v_
            v2['only'] = hdr[1]
            return v1, v2
        vs = util.attempt(build_two)
        if isinstance(vs, util.Raised):
            return {'kind': 'exception', 'detail': vs.text, 'where': vs.where}
        r2 = _report(_run(lambda: vs[1]), [('only',)] + [(r[1],) for r in rows], 'fieldmap-second-view', case)
        if r2:
            return r2
        return _report(_run(lambda: vs[0]), exp, 'fieldmap', case)
    return _report(_run(lambda: petl.fieldmap(table, m)), exp, 'fieldmap', case)


def j_rowmap(case, ctx, table, hdr, rows, tabs, frame):
    if case['many']:
        exp = [('k', 'pos', 'v')]
        for r in rows:
            for i, v in enumerate(r):
                exp.append((r[0], i, v))
        return _report(_run(lambda: petl.rowmapmany(table, lambda row: ([row[0], i, v] for i, v in enumerate(row)), ['k', 'pos', 'v'])), exp, 'rowmapmany', case)
    exp = [('last', 'first', 'n')] + [(r[-1], r[0], len(r)) for r in rows]
    return _report(_run(lambda: petl.rowmap(table, lambda row: [row[len(row) - 1], row[hdr[0]], len(row)], ['last', 'first', 'n'])), exp, 'rowmap', case)


def j_sub(case, ctx, table, hdr, rows, tabs, frame):
    import re
    f = case['field']
    fi = f if isinstance(f, int) else hdr.index(f)
    fl = case.get('flags', 0)
    fkw = {'flags': fl} if fl else {}
    if fl:
        ctx.seen('sub:regex-flags')
    prog = re.compile(case['pattern'], fl)
    exp = [tuple(hdr)] + [tuple(prog.sub(case['repl'], v, count=case['count']) if i == fi else v for i, v in enumerate(r)) for r in rows]
    return _report(_run(lambda: petl.sub(table, f, case['pattern'], case['repl'], count=case['count'], **fkw)), exp, 'sub', case)


def j_values(case, ctx, table, hdr, rows, tabs, frame):
    spec, missing = case['spec'], case['missing']
    idx = resolve(hdr, spec)
    if len(idx) == 1:
        exp = [_get(r, idx[0], missing) for r in rows]
    else:
        exp = [tuple(_get(r, i, missing) for i in idx) for r in rows]
    kw = {'missing': missing} if missing is not None else {}
    if case['positional'] or len(spec) == 1:
        got = util.attempt(lambda: list(iter(petl.values(table, *spec, **kw))))
    else:
        got = util.attempt(lambda: list(iter(petl.values(table, tuple(spec), **kw))))
    if isinstance(got, util.Raised):
        return {'kind': 'exception', 'fn': 'values', 'detail': got.text, 'where': got.where}
    if util.canon(got) != util.canon(exp):
        return {'kind': 'output-differs', 'fn': 'values', 'expected': exp, 'observed': got}
    return None


def j_accessors(case, ctx, table, hdr, rows, tabs, frame):
    which, missing = case['which'], case['missing']
    kw = {'missing': missing} if missing is not None else {}
    n = len(hdr)
    # the row accessors take slice arguments (stop / start, stop / start, stop, step) that select data rows exactly as
    # itertools.islice does over the data rows; chosen by a hash of the case, a stop of 0 and None bounds included
    sl = ()
    h_ = int(util.fp(case)[8:12], 16)
    if which in ('data', 'dicts', 'records', 'namedtuples') and h_ % 2 == 0:
        forms = [(0,), (1,), (2,), (None,), (0, 0), (1, 0), (1, 2), (0, None), (1, None), (2, 1), (0, 0, 2), (0, None, 2), (1, 4, 2), (None, None, 3), (3, 0), (0, 3, 1)]
        sl = forms[(h_ // 2) % len(forms)]
        rows = list(itertools.islice(rows, *sl))
        ctx.seen('accessor-with-slice-arguments')
        if sl[-1 if len(sl) < 3 else 1] == 0:
            ctx.seen('accessor-with-slice-arguments:stop-0')
    if which == 'data':
        got = util.attempt(lambda: [tuple(r) for r in iter(petl.data(table, *sl))])
        exp = [tuple(r) for r in rows]
    elif which == 'dicts':
        got = util.attempt(lambda: list(iter(petl.dicts(table, *sl, **kw))))
        exp = [dict((hdr[i], _get(r, i, missing)) for i in range(n)) for r in rows]
    elif which == 'records':
        def recs():
            out = []
            for rec in iter(petl.records(table, *sl, **kw)):
                out.append((tuple(rec), [rec[h] for h in hdr], [rec[i] for i in range(n)], [getattr(rec, h) for h in hdr]))
            return out
        got = util.attempt(recs)
        exp = []
        for r in rows:
            padded = [_get(r, i, missing) for i in range(n)]
            exp.append((tuple(r), padded, padded, padded))
    elif which == 'namedtuples':
        got = util.attempt(lambda: [(tuple(x), x._fields) for x in iter(petl.namedtuples(table, *sl, **kw))])
        exp = [(tuple(_get(r, i, missing) for i in range(n)), tuple(hdr)) for r in rows]
        if any(len(r) > n for r in rows):
            return None      # long rows are not documented for namedtuples
    else:
        got = util.attempt(lambda: petl.columns(table, **kw))
        m = max([n] + [len(r) for r in rows])
        exp = OrderedDict((h, [_get(r, i, missing) for r in rows]) for i, h in enumerate(hdr))
        if not isinstance(got, util.Raised):
            got = OrderedDict(got)
            if list(got.keys()) != list(exp.keys()):
                return {'kind': 'output-differs', 'fn': 'columns', 'expected': list(exp), 'observed': list(got)}
    if isinstance(got, util.Raised):
        return {'kind': 'exception', 'fn': which, 'detail': got.text, 'where': got.where}
    if util.canon(got) != util.canon(exp):
        return {'kind': 'output-differs', 'fn': which, 'expected': exp, 'observed': got}
    return None
