"""C03  Transformations never modify their inputs or rows already delivered.

Monitor: every source container, header, row and mutable cell (and every
mutable argument) is a GuardedList / GuardedDict that logs each mutating call
with its call stack at the moment it happens (so a mutation that is later
reverted is still seen); deep snapshots of the sources before / after; a yield
ledger that compares every delivered row at the end with a copy taken when it
was delivered (reused row buffers).
"""
from __future__ import annotations

import copy
import itertools
from collections import OrderedDict

import petl

from petlmon import catalogue as C
from petlmon import probes, util
from petlmon.run import HarnessError

ID = 'C03'
LEVEL = 'exploration'
RULE = ('cases = (operator form, input variant in {rectangular, ragged, with-mutable-cells}, stop after k rows for every k up to the '
        'output length, 2 passes); operator forms = the whole catalogue (incl. scalar-returning functions, which also consume tables) + '
        'extra argument forms that edit rows (stack/cat/annex padding flags, fills with missing=, unpack/unpackdict on mutable source '
        'cells, addfield/addcolumn insertion indices, joins with missing=). Non-trivial: the source has >= 2 data rows and the operator '
        'delivered >= 2 rows. Distinct = SHA-1 of the case.')
ASSUMPTIONS = ['mutable cell types generated are list and dict', 'the guard self-test fires at the start of every run, otherwise the run is inconclusive']
REQUIRED = ['guard-selftest', 'longer-second-table', 'entries-judged', 'rows-in-yield-ledger', 'partial-iterations', 'ragged-inputs', 'mutable-cells', 'guarded-arguments', 'c12-argument-forms', 'c14-argument-forms']

MUT = [[1, 2], {'p': 1}, [], {'p': 1, 'q': [2]}, [[3]], {'q': 2}]


def _mut_table(n=4):
    a = C.table_a(n)
    a[0] = a[0] + ['f3']
    for i, r in enumerate(a[1:]):
        r.append(copy.deepcopy(MUT[i % len(MUT)]))
    return a


EXTRA = OrderedDict()


def X(name, fn, arity=1, variant='any'):
    EXTRA[name] = (fn, arity, variant)


X('x:stack-notrim', lambda s: petl.stack(s, trim=False))
X('x:stack-nopad', lambda s: petl.stack(s, pad=False))
X('x:stack-notrim-nopad', lambda s: petl.stack(s, trim=False, pad=False))
X('x:stack-missing', lambda s: petl.stack(s, s, missing='M'))
X('x:cat-missing', lambda s: petl.cat(s, s, missing='M', header=['f2', 'f0', 'zz']))
X('x:annex-missing', lambda s: petl.annex(s, [['q'], [1]], missing='M'))
X('x:annex-self', lambda s: petl.annex(s, s))
X('x:addfield-neg-index', lambda s: petl.addfield(s, 'z', lambda r: r['f0'], index=-1))
X('x:addfield-big-index', lambda s: petl.addfield(s, 'z', 5, index=99))
X('x:addfields-index', lambda s: petl.addfields(s, [('z', 1, 0), ('y', lambda r: 2, 1)]))
X('x:addcolumn-index', lambda s: petl.addcolumn(s, 'q', [1, 2], index=0, missing='M'), variant='rect')
X('x:addcolumn-long', lambda s: petl.addcolumn(s, 'q', [1, 2, 3, 4, 5, 6, 7]), variant='rect')
X('x:movefield-last', lambda s: petl.movefield(s, 'f0', 2))
X('x:filldown-missing', lambda s: petl.filldown(s, missing='v1'), variant='rect')
X('x:fillright-missing', lambda s: petl.fillright(s, missing='v1'))
X('x:fillleft-missing', lambda s: petl.fillleft(s, missing='0'))
X('x:convert-index', lambda s: petl.convert(s, 0, lambda v: v))
X('x:convert-inplace-attempt', lambda s: petl.convert(s, 'f3', lambda v: v), variant='mut')
X('x:unpack-source-cells', lambda s: petl.unpack(s, 'f3', ['p', 'q', 'r'], missing='M'), variant='seqcells')
X('x:unpack-source-cells-include', lambda s: petl.unpack(s, 'f3', ['p'], include_original=True), variant='seqcells')
X('x:unpackdict-source-cells', lambda s: petl.unpackdict(s, 'f3'), variant='dictcells')
X('x:unpackdict-source-cells-keys', lambda s: petl.unpackdict(s, 'f3', keys=['p', 'zz'], missing='M'), variant='dictcells')
X('x:unpackdict-source-cells-include', lambda s: petl.unpackdict(s, 'f3', keys=['q'], includeoriginal=True), variant='dictcells')
X('x:flatten-mut', lambda s: petl.flatten(s), variant='mut')
X('x:melt-mut', lambda s: petl.melt(s, 'f0'), variant='mut')
X('x:transpose-mut', lambda s: petl.transpose(s), variant='mut')
X('x:sort-mut', lambda s: petl.sort(s, 'f0', buffersize=2), variant='mut')
X('x:dicts-mut', lambda s: petl.dicts(s), variant='mut')
X('x:records-mut', lambda s: petl.records(s), variant='mut')
X('x:columns-mut', lambda s: list(petl.columns(s).items()), variant='mut')
X('x:lookup-mut', lambda s: list(petl.lookup(s, 'f0').items()), variant='mut')
X('x:aggregate-list-mut', lambda s: petl.aggregate(s, 'f0', list, 'f3'), variant='mut')
X('x:mergeduplicates-ragged', lambda s: petl.mergeduplicates(s, 'f0'))
X('x:leftjoin-missing', lambda a, b: petl.leftjoin(a, b, key='f0', missing='M'), arity=2)
X('x:rightjoin-missing', lambda a, b: petl.rightjoin(a, b, key='f0', missing='M'), arity=2)
X('x:outerjoin-buffered', lambda a, b: petl.outerjoin(a, b, key='f0', buffersize=1, missing='M'), arity=2)
X('x:hashleftjoin-missing', lambda a, b: petl.hashleftjoin(a, b, key='f0', missing='M'), arity=2)
X('x:hashrightjoin-missing', lambda a, b: petl.hashrightjoin(a, b, key='f0', missing='M'), arity=2)
X('x:crossjoin-missing', lambda a, b: petl.crossjoin(a, b, missing='M'), arity=2)
X('x:lookupjoin-missing', lambda a, b: petl.lookupjoin(a, b, key='f0', missing='M'), arity=2)
X('x:rename-guarded-spec', lambda s, spec=None: petl.rename(s, probes.guard({'f0': 'g', 'f1': 'h'})))
X('x:convert-guarded-spec', lambda s: petl.convert(s, probes.guard({'f0': str, 'f1': {'v1': 'X'}})))
X('x:cut-guarded-args', lambda s: petl.cut(s, probes.guard(['f0', 'f2'])))
X('x:setheader-guarded', lambda s: petl.setheader(s, probes.guard(['a', 'b', 'c'])))
X('x:pushheader-guarded', lambda s: petl.pushheader(s, probes.guard(['a', 'b', 'c'])))
X('x:extendheader-guarded', lambda s: petl.extendheader(s, probes.guard(['y', 'z'])))
X('x:cat-guarded-header', lambda s: petl.cat(s, header=probes.guard(['f2', 'f0'])))
X('x:fieldmap-guarded', lambda s: petl.fieldmap(s, probes.guard({'a': 'f0', 'b': 'f1'})))
X('x:addfields-guarded', lambda s: petl.addfields(s, probes.guard([['z', 1], ['y', 2, 0]])))
X('x:selectin-guarded', lambda s: petl.selectin(s, 'f0', probes.guard([1, 2])))
X('x:unflatten-guarded-values-3', lambda s: petl.unflatten(probes.guard([1, 'a', 2, 'b', 3, 'c', 4]), 3, missing='M'))
X('x:unflatten-guarded-values-2', lambda s: petl.unflatten(probes.guard(['x', 1, 'y']), 2))
X('x:unflatten-guarded-values-4', lambda s: petl.unflatten(probes.guard([1, 2, 3, 4, 5]), 4))
X('x:addcolumn-guarded-column', lambda s: petl.addcolumn(s, 'q', probes.guard([1, 2])), variant='rect')
X('x:addcolumn-guarded-column-long', lambda s: petl.addcolumn(s, 'q', probes.guard([1, 2, 3, 4, 5, 6, 7, 8]), missing='M'), variant='rect')
X('x:fromcolumns-guarded', lambda s: petl.fromcolumns(probes.guard([[1, 2, 3], ['a', 'b']]), missing='M'))
X('x:fromdicts-guarded', lambda s: petl.fromdicts(probes.guard([{'a': 1}, {'a': 2, 'b': 3}]), header=['a', 'b', 'c']))
X('x:annex-guarded-second', lambda s: petl.annex(s, probes.guard([['q'], [1], [2, 3]]), missing='M'))
X('x:cat-guarded-second', lambda s: petl.cat(s, probes.guard([['f1', 'zz'], ['p'], ['q', 'r', 's']]), missing='M'))
X('x:stack-guarded-second', lambda s: petl.stack(s, probes.guard([['a'], ['p'], ['q', 'r', 's', 't']]), missing='M'))
X('x:mergesort-guarded-header', lambda s: petl.mergesort(s, s, key='f0', header=probes.guard(['f0', 'f2'])))
X('x:mergesort-presorted', lambda s: petl.mergesort(s, [['f0', 'f1', 'f2'], [2, 'm', 'n']], key='f0', presorted=True, missing='NA'))
X('x:mergesort-presorted-header', lambda s: petl.mergesort(s, s, key='f0', presorted=True, header=['f2', 'f0', 'zz']))
X('x:join-presorted', lambda a, b: petl.join(a, b, key='f0', presorted=True), arity=2)
X('x:outerjoin-presorted', lambda a, b: petl.outerjoin(a, b, key='f0', presorted=True, missing='M'), arity=2)
X('x:complement-presorted', lambda s: petl.complement(s, s, presorted=True), variant='rect')
X('x:intersection-presorted', lambda s: petl.intersection(s, s, presorted=True), variant='rect')
X('x:duplicates-presorted', lambda s: petl.duplicates(s, 'f0', presorted=True), variant='rect')
X('x:aggregate-presorted', lambda s: petl.aggregate(s, 'f0', list, 'f1', presorted=True), variant='rect')
X('x:rowreduce-presorted', lambda s: petl.rowreduce(s, 'f0', lambda k, rows: [k, len(list(rows))], header=['k', 'n'], presorted=True), variant='rect')
X('x:mergeduplicates-presorted', lambda s: petl.mergeduplicates(s, 'f0', presorted=True, missing='NA'))
X('x:sortheader-missing', lambda s: petl.sortheader(s, reverse=True, missing='NA'))
X('x:lookup-guarded-dict', lambda s: list(petl.lookup(s, 'f0', dictionary={}).items()), variant='rect')
GUARDED_ARG_FORMS = [n for n in EXTRA if 'guarded' in n]


def _variants_for(name):
    if name in EXTRA:
        v = EXTRA[name][2]
        if v == 'rect':
            return ['rect']
        if v in ('mut', 'seqcells', 'dictcells'):
            return [v]
        return ['rect', 'ragged']
    e = C.by_name(name)
    out = ['rect']
    if e.ragged:
        out.append('ragged')
    if e.arity == 1 and e.group in ('basics', 'headers', 'selects', 'fills', 'sort', 'dedup', 'passthrough', 'accessors', 'reshape') \
            and e.name not in ('cut-index', 'validate', 'transpose', 'pivot', 'recast', 'recast-variables', 'distinct', 'distinct-count',
                               'duplicates-nokey', 'unique-nokey', 'distinct-presorted', 'distinct-count-presorted', 'sort', 'melt', 'flatten', 'unflatten', 'unflatten-field'):
        out.append('mut')
    return out


def cases(ctx):
    names = list(C.ENTRIES) + list(EXTRA)
    for name in names:
        for variant in _variants_for(name):
            for stop in [None] + list(range(0, 8)):
                yield {'op': name, 'variant': variant, 'stop': stop}
            if name in C.ENTRIES and C.by_name(name).arity == 2:
                # a longer second table: several of its keys lie beyond the first table's last key (and one before its first)
                for stop in (None, 5):
                    yield {'op': name, 'variant': variant, 'stop': stop, 'n2': 9}
            if not ctx.quick:
                # larger inputs, and every internal sort forced onto the temp-file path (pickled copies must not be mistaken for,
                # nor hide, mutations of the caller's rows)
                for stop in (None, 3, 9):
                    yield {'op': name, 'variant': variant, 'stop': stop, 'n': 7}
                    yield {'op': name, 'variant': variant, 'stop': stop, 'n': 5, 'chunked': True}
    # every argument form of the field / row transforms of C12, on its generated (ragged, duplicate-name) tables
    from petlmon.checks import c12

    class _Ctx(object):
        quick = ctx.quick
        pick = staticmethod(lambda q, t: ctx.pick(q // 12, t // 12))
        rng = staticmethod(lambda *a: ctx.rng('c12-forms', *a))
    for c in c12.cases(_Ctx()):
        yield {'op': 'c12:' + c['form'], 'c12case': c}
    # ... and every argument form of the reshape / unpack / regex operators of C14
    from petlmon.checks import c14

    class _Ctx14(object):
        quick = ctx.quick
        pick = staticmethod(lambda q, t: ctx.pick(q // 12, t // 12))
        rng = staticmethod(lambda *a: ctx.rng('c14-forms', *a))
    for c in c14.cases(_Ctx14()):
        if 'table' in c:
            yield {'op': 'c14:' + c['kind'], 'c14case': c}


def setup(ctx):
    del probes.GUARD_LOG[:]
    g = probes.guard([['a'], [1, [2]]])
    g[1].append(3)
    g[1][1].append(4)
    if len(probes.GUARD_LOG) != 2:
        raise HarnessError('guard self-test did not fire: %r' % (probes.GUARD_LOG,))
    del probes.GUARD_LOG[:]
    ctx.seen('guard-selftest')


def _input(variant, n=4):
    if variant == 'rect':
        return C.table_a(n)
    if variant == 'ragged':
        return C.table_a(n, ragged=True)
    if variant == 'mut':
        return _mut_table(n)
    if variant == 'seqcells':
        t = C.table_a(n)
        t[0].append('f3')
        cells = [[1, 2], [3], [], [4, 5, 6, 7]]
        for i, r in enumerate(t[1:]):
            r.append(list(cells[i % 4]))
        return t
    if variant == 'dictcells':
        t = C.table_a(n)
        t[0].append('f3')
        cells = [{'p': 1}, {'q': 2}, {}, {'p': 3, 'q': 4, 'r': 5}]
        for i, r in enumerate(t[1:]):
            r.append(dict(cells[i % 4]))
        return t
    raise KeyError(variant)


def _judge_c12(case, ctx):
    if 'c14case' in case:
        from petlmon.checks import c14 as c12
        c = case['c14case']
        ctx.seen('c14-argument-forms')
    else:
        from petlmon.checks import c12
        c = case['c12case']
        ctx.seen('c12-argument-forms')
    del probes.GUARD_LOG[:]
    before = util.canon(c.get('table', c.get('tables')))
    c12.WRAP[0] = probes.guard

    class _Quiet(object):            # C12's own observations are not C03's
        def seen(self, *a, **k):
            pass
        op = mark_nontrivial = seen
    try:
        c12.judge(c, _Quiet())
    finally:
        c12.WRAP[0] = lambda t: t
    ctx.seen('entries-judged')
    if c.get('table') and len(c['table']) > 2:
        ctx.mark_nontrivial()
    out = []
    if probes.GUARD_LOG:
        ev = probes.GUARD_LOG[:3]
        out.append({'kind': 'input-mutated', 'events': [{'container': k, 'method': m, 'stack': st} for k, m, st in ev], 'count': len(probes.GUARD_LOG)})
    if util.canon(c.get('table', c.get('tables'))) != before:
        out.append({'kind': 'source-differs-after-evaluation'})
    del probes.GUARD_LOG[:]
    return out


def judge(case, ctx):
    if 'c12case' in case or 'c14case' in case:
        return _judge_c12(case, ctx)
    name, variant, stop = case['op'], case['variant'], case['stop']
    if name in EXTRA:
        fn, arity, _ = EXTRA[name]
        kind = 'view'
        second_schema = 'join'
    else:
        e = C.by_name(name)
        fn, arity, kind = e.fn, e.arity, e.kind
        second_schema = e.second
    plain = [_input(variant, case.get('n', 4))]
    if case.get('chunked'):
        from petl import config as pcfg
        pcfg.sort_buffersize = 2
    if arity == 2:
        n2 = case.get('n2', 3)
        if n2 != 3:
            ctx.seen('longer-second-table')
        plain.append(C.table_joinrev(n2) if second_schema == 'joinrev' else (C.table_join(n2) if second_schema == 'join' else C.table_same(n2)))
    before = copy.deepcopy(plain)
    srcs = [probes.guard(t) for t in plain]
    if variant == 'ragged':
        ctx.seen('ragged-inputs')
    if variant in ('mut', 'seqcells', 'dictcells'):
        ctx.seen('mutable-cells')
    if name in GUARDED_ARG_FORMS:
        ctx.seen('guarded-arguments')
    del probes.GUARD_LOG[:]
    ledger = []
    out = []
    delivered = 0

    def consume(obj):
        nonlocal delivered
        for p in (1, 2):
            it = iter(obj)
            for i, item in enumerate(it):
                with probes.guard_paused():
                    ledger.append((item, util.canon(item), repr(item)))
                delivered += 1
                if stop is not None and i >= stop:
                    ctx.seen('partial-iterations')
                    break
            del it
    res = fn(*srcs)
    if kind in ('view', 'items') or name in EXTRA:
        if isinstance(res, (str, bytes, int, float, bool)) or res is None:
            pass
        else:
            consume(res)
    elif kind == 'multi':
        for v in res:
            consume(v)
    elif kind == 'dictviews':
        for v in res.values():
            consume(v)
    ctx.seen('entries-judged')
    ctx.seen('rows-in-yield-ledger', len(ledger))
    if delivered >= 4:
        ctx.mark_nontrivial()
    # ---- verdicts
    if probes.GUARD_LOG:
        ev = probes.GUARD_LOG[:3]
        out.append({'kind': 'input-mutated', 'events': [{'container': k, 'method': m, 'stack': st} for k, m, st in ev], 'count': len(probes.GUARD_LOG)})
    with probes.guard_paused():
        after = [copy.deepcopy(s) for s in srcs]
        for i, (b, a) in enumerate(zip(before, after)):
            if util.canon(b) != util.canon(a):
                out.append({'kind': 'source-differs-after-evaluation', 'input': i, 'before': b, 'after': a})
        for item, snap, shown in ledger:
            if util.canon(item) != snap:
                out.append({'kind': 'delivered-row-changed-later', 'delivered-as': shown, 'now': repr(item)})
                break
    del probes.GUARD_LOG[:]
    return out
