"""C09  Grouping and aggregation conserve rows: each row in exactly one group.

Monitor: the aggregation functions / reducers / mappers handed to petl are
recording probes: they write down exactly which rows (unique ids) they were
handed.  Conservation (every id in exactly one group, one group per
model-distinct key, ascending key order, input order inside a group) is
checked on that event log; values are checked against a dictionary reference
grouping built with the independent ordering model.
"""
from __future__ import annotations

import copy
import zlib
from collections import Counter, OrderedDict
from functools import reduce

import petl
from petl.transform.reductions import Conflict

from petlmon import gen, probes, util

ID = 'C09'
LEVEL = 'exploration'
RULE = ('cases = (operator form, table, key, buffersize, presorted); operator forms: aggregate (callable, value= single/multiple, dict / '
        'OrderedDict / list specs, key None / single / compound / one-element list), rowreduce, rowgroupmap, fold, groupselectfirst/'
        'last/min/max, mergeduplicates, merge, groupcountdistinctvalues, rowgroupby (callable key, value getter), valuecounts, valuecounter; '
        'seeded random tables of 0-8 rows with duplicate, None, equal-but-different-type (1, 1.0, True) and compound keys; buffersize '
        'in {None, 1, 2, 3}; presorted on reference-sorted input. Non-trivial: at least two groups and a group of >= 2 rows. Distinct = SHA-1.')
ASSUMPTIONS = ['the reference ordering model decides key equivalence and group order', 'rectangular tables']
FORMS = ['aggregate-rows', 'aggregate-value', 'aggregate-values', 'aggregate-len', 'aggregate-multi-dict', 'aggregate-multi-list', 'aggregate-none',
         'aggregate-multi-none', 'rowreduce', 'rowgroupmap', 'fold', 'groupselectfirst', 'groupselectlast', 'groupselectmin', 'groupselectmax',
         'mergeduplicates', 'merge', 'groupcountdistinctvalues', 'rowgroupby', 'rowgroupby-callable', 'valuecounts', 'valuecounter']
REQUIRED = (['form:' + f for f in FORMS] + ['key-none-group', 'equal-but-different-type-keys-in-one-group', 'single-row-group-first', 'single-row-group-last',
            'compound-key', 'chunked', 'presorted', 'header-only', 'rows-handed-to-recorders', 'min/max-tie', 'merge:header-only-table-not-last', 'mergeduplicates:non-default-missing', 'mergeduplicates:short-rows', 'merge:short-rows', 'key-by-index', 'merge:reverse', 'second-pass-compared', 'rows-without-a-key-cell', 'failing-first-pass', 'input-is-a-petl-view'])
FAILFIRST_FORMS = ('aggregate-len', 'aggregate-values', 'groupselectfirst', 'groupselectlast', 'groupselectmin', 'groupselectmax')
KPOOL = [None, 1, 1.0, True, 2, 'a', 'b', b'a', (1, 2), gen.D(2020, 1, 1), 0, False, '', ()]
LISTKEY = [1, 2]      # a list-valued key cell is equivalent to the tuple (1, 2) under the ordering (C04): one group
VPOOL = [0, 1, 2, 3, 5, -1, 2.5]


def cases(ctx):
    rng = ctx.rng('cases')
    H = ['k', 'j', 'v', 'id']
    # directed
    base = [H] + [[k, 'x', v, 'r%d' % i] for i, (k, v) in enumerate([(2, 1), (1, 5), (None, 2), (1.0, 0), (True, 3), ('a', 1), (2, 1), (None, 7)])]
    for f in FORMS:
        for bs in (None, 1, 2):
            yield {'form': f, 'table': base, 'key': 'k', 'buffersize': bs, 'presorted': False}
        yield {'form': f, 'table': base, 'key': 'k', 'buffersize': None, 'presorted': True}
        yield {'form': f, 'table': [H], 'key': 'k', 'buffersize': None, 'presorted': False}
        yield {'form': f, 'table': [H, [3, 'x', 1, 'r0']], 'key': ('k', 'j') if f != 'groupcountdistinctvalues' else 'k', 'buffersize': 1, 'presorted': False}
    for i in range(ctx.pick(60000, 800000)):
        f = FORMS[i % len(FORMS)]
        kp = rng.sample(KPOOL, 4) + ([1, 1.0, True] if rng.random() < 0.3 else [])
        if f not in ('valuecounts', 'valuecounter', 'rowgroupby-callable', 'mergeduplicates', 'merge', 'groupcountdistinctvalues') and rng.random() < 0.25:
            kp = kp + [LISTKEY, (1, 2)]
        jp = ['x', 'y', None]
        n = rng.choice([0, 1, 2, 3, 4, 5, 6, 7, 8])
        t = [H] + [[rng.choice(kp), rng.choice(jp), rng.choice(VPOOL), 'r%d' % r] for r in range(n)]
        r = rng.random()
        key = 'k' if r < 0.6 else (('k', 'j') if r < 0.85 else (['k'] if f.startswith('aggregate') else ['k', 'j']))
        if f in ('groupselectfirst', 'groupselectlast', 'groupselectmin', 'groupselectmax', 'rowreduce', 'rowgroupmap', 'fold') and rng.random() < 0.25:
            # the key as field index / indices (index 0 included); these forms do not echo the key argument in their header
            key = rng.choice([0, 0, 1, (0, 1), (1,), (0,), [1, 0], -1, -4, (-4, 1), (-3,), -2])      # an index may count from the end
        elif rng.random() < 0.08 and f not in ('valuecounts', 'valuecounter'):
            key = rng.choice([('k',), ('j',), 'j'])      # a one-element tuple selects the same single field as the bare name
        if f == 'groupcountdistinctvalues':
            key = 'k'        # documented for "the `key` field" only
        c = {'form': f, 'table': t, 'key': key, 'buffersize': rng.choice([None, None, 1, 2, 3]), 'presorted': rng.random() < 0.2}
        if f == 'merge' and rng.random() < 0.3:
            c['reverse'] = True
        if not c['presorted'] and rng.random() < 0.12:
            # the input is itself a petl view: a sort on the same key (descending, ascending, through chunk files), or a pass-through
            c['wrap'] = rng.choice(['sort-same-key-reverse', 'sort-same-key-reverse', 'sort-same-key', 'sort-same-key-reverse-chunked', 'sort-other', 'cat'])
        if f in FAILFIRST_FORMS and n >= 2 and rng.random() < 0.15 and 'wrap' not in c:
            # the first pass over the view hits a source failure at this data row; the judged pass comes after it
            c['failfirst'] = rng.randint(1, n)
        if f in ('aggregate-len', 'groupselectfirst', 'groupselectlast') and rng.random() < 0.25:
            # rows too short to hold the key cell(s): they form (or join) the None group
            for r_ in t[1:]:
                if rng.random() < 0.3:
                    del r_[rng.choice([0, 0, 1]):]
        if f == 'aggregate-values' and 'failfirst' not in c and zlib.crc32(repr(t).encode('utf-8', 'backslashreplace')) % 4 == 0:
            # rows that hold the key cells but not (all of) the value cells: such a row still belongs to its group, with None for
            # what it does not have
            for r_ in t[1:]:
                if zlib.crc32(repr(r_).encode('utf-8', 'backslashreplace')) % 3 == 0:
                    del r_[2 + zlib.crc32(repr(r_[3]).encode()) % 2:]
            c['shortvalues'] = True
        if f in ('mergeduplicates', 'merge') and rng.random() < 0.5:
            c['missing'] = rng.choice(['NA', 0, 'x'])
            if f in ('mergeduplicates', 'merge'):
                for r_ in t[1:]:
                    if rng.random() < 0.35:
                        del r_[rng.randint(2, 3):]          # short rows (key fields k, j stay)
        yield c


# ---------------------------------------------------------------------------

def _kc(r, i):
    """the key cell of row r at index i; an index may count from the end of the row as it is (row[-1] is the row's own last cell);
    a cell the row does not have counts as None"""
    return r[i] if -len(r) <= i < len(r) else None


def _groups(rows, kidx):
    """reference grouping: [(representative key values, [rows in input order])] in ascending model order"""
    groups = []
    for r in rows:
        k = tuple(_kc(r, i) for i in kidx)       # a key cell the row does not have counts as None
        for g in groups:
            if util.model_cmp(g[0], k) == 0:
                g[1].append(r)
                break
        else:
            groups.append((k, [r]))
    groups.sort(key=lambda g: util.model_key(g[0]))
    return groups


def judge(case, ctx):
    form, key, bs, presorted = case['form'], case['key'], case['buffersize'], case['presorted']
    table = copy.deepcopy(case['table'])
    hdr = table[0]
    rows = [tuple(r) for r in table[1:]]
    wrapfn = None
    if case.get('wrap') and form not in ('merge', 'rowgroupby', 'rowgroupby-callable', 'valuecounts', 'valuecounter'):
        # the input is a petl view; "input order" is then the order in which that view delivers its rows
        wkey = key if not isinstance(key, list) else tuple(key)
        wrapfn = {'sort-same-key-reverse': lambda t: petl.sort(t, wkey, reverse=True), 'sort-same-key': lambda t: petl.sort(t, wkey),
                  'sort-same-key-reverse-chunked': lambda t: petl.sort(t, wkey, reverse=True, buffersize=2),
                  'sort-other': lambda t: petl.sort(t, 'id', reverse=True), 'cat': lambda t: petl.cat(t)}[case['wrap']]
        rows = [tuple(r) for r in util.rows_of(wrapfn(copy.deepcopy(table)))[1:]]
    ctx.op('form:' + form)
    kidx = gen.resolve_key(hdr, key)
    compound = len(kidx) > 1
    groups = _groups(rows, kidx)
    single = not compound

    def kshow(g):
        return g[0][0] if single else g[0]
    # tallies
    if not rows:
        ctx.seen('header-only')
    if compound:
        ctx.seen('compound-key')
    if isinstance(key, int):
        ctx.seen('key-by-index')
    if any(all(x is None for x in g[0]) for g in groups):
        ctx.seen('key-none-group')
    if any(_kc(r, i) is None and not (-len(r) <= i < len(r)) for r in rows for i in kidx):
        ctx.seen('rows-without-a-key-cell')
    if any(len({util.canon(tuple(_kc(r, i) for i in kidx)) for r in g[1]}) > 1 for g in groups):
        ctx.seen('equal-but-different-type-keys-in-one-group')
    if groups and len(groups[0][1]) == 1:
        ctx.seen('single-row-group-first')
    if groups and len(groups[-1][1]) == 1:
        ctx.seen('single-row-group-last')
    if len(groups) >= 2 and any(len(g[1]) >= 2 for g in groups):
        ctx.mark_nontrivial()
    kw = {}
    if bs is not None:
        kw['buffersize'] = bs
        if len(rows) > bs:
            ctx.seen('chunked')
    src = table
    if presorted:
        ctx.seen('presorted')
        kw['presorted'] = True
        src = [hdr] + sorted(table[1:], key=lambda r: util.model_key(tuple(_kc(r, i) for i in kidx)))
    vi, idi = hdr.index('v'), hdr.index('id')
    out = []
    if wrapfn is not None:
        ctx.seen('input-is-a-petl-view')
        src = wrapfn(copy.deepcopy(table))
    def fresh_src():
        return wrapfn(copy.deepcopy(table)) if wrapfn is not None else copy.deepcopy(src)
    ff = case.get('failfirst')
    if ff is not None:
        src = probes.FailingSource(src, fail_at=ff, only_pass=1)

    def run(build):
        if ff is None:
            return util.attempt_rows(build)
        v = util.attempt(build)
        if isinstance(v, util.Raised):
            return v
        try:
            for _ in iter(v):
                pass
            ctx.seen('failing-first-pass:fault-not-reached')
        except probes.InjectedFault:
            ctx.seen('failing-first-pass')
        return util.attempt_rows(lambda: v)
    log = []          # (group key as handed, [ids]) per recorder call

    def rec_rows(group_rows):
        rs = [tuple(r) for r in group_rows]
        log.append([r[idi] for r in rs])
        ctx.seen('rows-handed-to-recorders', len(rs))
        return [r[idi] for r in rs]

    def check_log(expect_groups=None):
        eg = groups if expect_groups is None else expect_groups
        want = [[r[idi] for r in g[1]] for g in eg]
        if log != want:
            flat = [i for g in log for i in g]
            kind = 'rows-not-delivered-exactly-once' if Counter(flat) != Counter(r[idi] for r in rows) else 'grouping-differs'
            out.append({'kind': kind, 'expected-groups': want, 'groups-handed-to-the-aggregator': list(log)})
            return False
        return True

    def two_passes(build):
        # the same view read twice: the second pass (served from the sort's memory or chunk-file cache) is the same table
        v = util.attempt(build)
        if isinstance(v, util.Raised):
            return v
        got = util.attempt_rows(lambda: v)
        again = util.attempt_rows(lambda: v)
        ctx.seen('second-pass-compared')
        if not isinstance(got, util.Raised) and (isinstance(again, util.Raised) or util.crows(again) != util.crows(got)):
            out.append({'kind': 'second-pass-differs', 'op': form, 'first': got, 'second': again if not isinstance(again, util.Raised) else again.text})
        return got

    def compare(got, exp, what='output-differs'):
        if isinstance(got, util.Raised):
            out.append({'kind': 'exception', 'detail': got.text, 'where': got.where})
            return False
        nk = nkeycells[0]
        same = len(got) == len(exp) and util.crow(got[0]) == util.crow(exp[0])
        if same:
            for g, e in zip(got[1:], exp[1:]):
                # which member of a class of equal keys (1, 1.0, True) represents the group is not specified:
                # key cells are compared under the ordering's equivalence, all other cells type-strictly
                if len(g) != len(e) or util.crow(g[nk:]) != util.crow(e[nk:]) or any(util.model_cmp(a, b) != 0 for a, b in zip(g[:nk], e[:nk])):
                    same = False
                    break
        if not same:
            out.append({'kind': what, 'op': form, 'expected': exp, 'observed': got, 'presorted': presorted})
            return False
        return True
    nkeycells = [0]

    def keycells(g):
        # petl reports the key of the first row of the group
        return tuple(_kc(g[1][0], i) for i in kidx)
    khdr = tuple(hdr[i] for i in kidx)
    keyarg = key
    if form.startswith(('aggregate', 'mergeduplicates', 'merge', 'groupcountdistinctvalues')) and 'none' not in form:
        nkeycells[0] = len(kidx)
    elif form in ('rowreduce', 'rowgroupmap', 'fold'):
        nkeycells[0] = 1

    if form == 'aggregate-rows':
        got = util.attempt_rows(lambda: petl.aggregate(src, keyarg, rec_rows, **kw))
        exp = [khdr + ('value',)] + [keycells(g) + ([r[idi] for r in g[1]],) for g in groups]
        if compare(got, exp):
            check_log()
    elif form == 'aggregate-value':
        got = util.attempt_rows(lambda: petl.aggregate(src, keyarg, list, 'id', **kw))
        exp = [khdr + ('value',)] + [keycells(g) + ([r[idi] for r in g[1]],) for g in groups]
        compare(got, exp)
        got = util.attempt_rows(lambda: petl.aggregate(fresh_src(), keyarg, sum, 'v', field='total', **kw))
        exp = [khdr + ('total',)] + [keycells(g) + (sum(r[vi] for r in g[1]),) for g in groups]
        if compare(got, exp) and sum(r[-1] for r in got[1:]) != sum(r[vi] for r in rows):
            out.append({'kind': 'group-sums-do-not-add-up'})
    elif form == 'aggregate-values':
        got = run(lambda: petl.aggregate(src, keyarg, list, ('id', 'v'), **kw))
        cell = lambda r, i: r[i] if i < len(r) else None  # noqa: E731
        exp = [khdr + ('value',)] + [keycells(g) + ([(cell(r, idi), cell(r, vi)) for r in g[1]],) for g in groups]
        if case.get('shortvalues') and any(len(r) < 4 for r in rows):
            ctx.seen('aggregate:rows-without-the-value-cells')
        compare(got, exp)
    elif form == 'aggregate-len':
        got = run(lambda: petl.aggregate(src, keyarg, len, **kw))
        exp = [khdr + ('value',)] + [keycells(g) + (len(g[1]),) for g in groups]
        if compare(got, exp) and sum(r[-1] for r in got[1:]) != len(rows):
            out.append({'kind': 'group-counts-do-not-add-up'})
    elif form in ('aggregate-multi-dict', 'aggregate-multi-list'):
        # every documented spec shape: callable, (field, fn), (fields, fn), and the short forms 'field' / ('field',) (list is the
        # default aggregation) and (callable,) (whole rows)
        spec = [('n', len), ('ids', 'id', list), ('total', 'v', sum), ('rows', rec_rows), ('pairs', ('id', 'v'), list), ('jid', ('j', 'id'), list),
                ('vs', 'v'), ('js', 'j'), ('cnt', len)]      # in the list form (name, 'field') and (name, fn) *are* the short forms
        if form == 'aggregate-multi-dict':
            agg = OrderedDict((s[0], s[1] if len(s) == 2 else tuple(s[1:])) for s in spec)
            agg['js'] = ('j',)
            agg['cnt'] = (len,)
        else:
            agg = [tuple(s) for s in spec]
        got = util.attempt_rows(lambda: petl.aggregate(src, keyarg, agg, **kw))
        ji = hdr.index('j')
        exp = [khdr + ('n', 'ids', 'total', 'rows', 'pairs', 'jid', 'vs', 'js', 'cnt')]
        for g in groups:
            ids = [r[idi] for r in g[1]]
            exp.append(keycells(g) + (len(g[1]), ids, sum(r[vi] for r in g[1]), ids, [(r[idi], r[vi]) for r in g[1]], [(r[ji], r[idi]) for r in g[1]],
                                      [r[vi] for r in g[1]], [r[ji] for r in g[1]], len(g[1])))
        if compare(got, exp):
            check_log()
    elif form == 'aggregate-none':
        got = util.attempt_rows(lambda: petl.aggregate(src, None, len))
        compare(got, [('value',), (len(rows),)])
        got = util.attempt_rows(lambda: petl.aggregate(fresh_src(), None, sum, 'v'))
        compare(got, [('value',), (sum(r[vi] for r in rows),)])
        got = util.attempt_rows(lambda: petl.aggregate(fresh_src(), None, list, 'id'))
        order = [r[idi] for r in (src[1:])]
        compare(got, [('value',), (order,)])
    elif form == 'aggregate-multi-none':
        agg = OrderedDict([('n', len), ('total', ('v', sum)), ('rows', rec_rows)])
        got = util.attempt_rows(lambda: petl.aggregate(src, None, agg))
        order = [r[idi] for r in src[1:]]
        if rows:
            compare(got, [('n', 'total', 'rows'), (len(rows), sum(r[vi] for r in rows), order)])
        else:
            compare(got, [('n', 'total', 'rows')])
    elif form == 'rowreduce':
        handed = []

        def reducer(k, grows):
            handed.append(k)
            return [k, rec_rows(grows)]
        got = util.attempt_rows(lambda: petl.rowreduce(src, keyarg, reducer, header=['key', 'ids'], **kw))
        exp = [('key', 'ids')] + [((keycells(g)[0] if single else keycells(g)), [r[idi] for r in g[1]]) for g in groups]
        if compare(got, exp):
            check_log()
    elif form == 'rowgroupmap':
        def mapper(k, grows):
            ids = rec_rows(grows)
            return [(k, i) for i in ids]
        got = util.attempt_rows(lambda: petl.rowgroupmap(src, keyarg, mapper, header=['key', 'id'], **kw))
        exp = [('key', 'id')] + [((keycells(g)[0] if single else keycells(g)), r[idi]) for g in groups for r in g[1]]
        if compare(got, exp):
            check_log()
    elif form == 'fold':
        calls = []

        def f(a, b):
            calls.append((a, b))
            return a + '+' + b
        got = util.attempt_rows(lambda: petl.fold(src, keyarg, f, value='id', **kw))
        exp = [('key', 'value')] + [((keycells(g)[0] if single else keycells(g)), reduce(lambda a, b: a + '+' + b, [r[idi] for r in g[1]])) for g in groups]
        if compare(got, exp) and len(calls) != len(rows) - len(groups):
            out.append({'kind': 'fold-called-its-function-a-wrong-number-of-times', 'calls': len(calls), 'expected': len(rows) - len(groups)})
    elif form in ('groupselectfirst', 'groupselectlast'):
        fn = getattr(petl, form)
        got = run(lambda: fn(src, keyarg, **kw))
        exp = [tuple(hdr)] + [g[1][0 if form.endswith('first') else -1] for g in groups]
        compare(got, exp)
    elif form in ('groupselectmin', 'groupselectmax'):
        fn = getattr(petl, form)
        got = run(lambda: fn(src, keyarg, 'v', **kw))
        exp = [tuple(hdr)]
        for g in groups:
            best = None
            for r in g[1]:      # ties resolved to the first in input order (stable sort by value, then first per key)
                c = util.model_cmp(r[vi], best[vi]) if best is not None else None
                if best is None or (c < 0 if form.endswith('min') else c > 0):
                    best = r
                elif c == 0:
                    ctx.seen('min/max-tie')
            exp.append(best)
        if not isinstance(got, util.Raised):
            for r in got[1:]:
                if util.crow(r) not in [util.crow(x) for x in rows]:
                    out.append({'kind': 'selected-row-is-not-an-input-row', 'row': r})
        compare(got, exp)
    elif form == 'mergeduplicates':
        missing = case.get('missing')
        mkw = dict(kw)
        if missing is not None:
            mkw['missing'] = util.fresh(missing)     # equal to the cells, not the same object
            ctx.seen('mergeduplicates:non-default-missing')
        if any(len(r) < len(hdr) for r in rows):
            ctx.seen('mergeduplicates:short-rows')
        got = two_passes(lambda: petl.mergeduplicates(src, keyarg if not isinstance(keyarg, int) else 'k', **mkw))
        others = [i for i in range(len(hdr)) if i not in kidx]
        exp = [khdr + tuple(hdr[i] for i in others)]
        for g in groups:
            o = list(keycells(g))
            for i in others:
                vals = []
                for r in g[1]:
                    # a cell the row does not have, or one equal to `missing`, contributes no value
                    if i < len(r) and r[i] != missing and not any(r[i] == x for x in vals):
                        vals.append(r[i])
                o.append(vals[0] if len(vals) == 1 else (missing if not vals else ('CONFLICT', frozenset(vals))))
            exp.append(tuple(o))
        if not isinstance(got, util.Raised):
            got = [tuple(('CONFLICT', frozenset(c)) if isinstance(c, Conflict) else c for c in r) for r in got]
        compare(got, exp)
    elif form == 'merge':
        # split the rows over 2-4 input tables in order; header-only tables may end up anywhere
        body = table[1:]
        import random
        prng = random.Random(util.fp(case))          # derived from the case, so the replay splits the same way
        nparts = prng.randint(1, 4)          # a single table too: merge still sorts it and merges its duplicates
        cuts = sorted(prng.randint(0, len(body)) for _ in range(nparts - 1))
        parts, prev = [], 0
        for c_ in cuts + [len(body)]:
            parts.append([hdr] + body[prev:c_])
            prev = c_
        if any(len(p_) == 1 and any(len(q_) > 1 for q_ in parts[i_ + 1:]) for i_, p_ in enumerate(parts)):
            ctx.seen('merge:header-only-table-not-last')
        mk = keyarg if not isinstance(keyarg, int) else 'k'
        kw2 = {k: v for k, v in kw.items() if k != 'presorted'}
        rev = bool(case.get('reverse'))
        if rev:
            kw2['reverse'] = True          # merge forwards it to mergesort: the groups then come in descending key order
            ctx.seen('merge:reverse')
        # (merge hands `missing` to mergesort only, where it pads short rows; the merging of duplicates always takes None for
        # "no value": the default is used here, so a cell a row lacks contributes nothing)
        missing = None
        if any(len(r) < len(hdr) for r in rows):
            ctx.seen('merge:short-rows')
        got = two_passes(lambda: petl.merge(*parts, key=mk, **kw2))
        others = [i for i in range(len(hdr)) if i not in kidx]
        exp = [khdr + tuple(hdr[i] for i in others)]
        for g in (groups[::-1] if rev else groups):
            o = list(keycells(g))
            for i in others:
                vals = []
                for r in g[1]:
                    if i < len(r) and r[i] != missing and not any(r[i] == x for x in vals):
                        vals.append(r[i])
                o.append(vals[0] if len(vals) == 1 else (missing if not vals else ('CONFLICT', frozenset(vals))))
            exp.append(tuple(o))
        if not isinstance(got, util.Raised):
            got = [tuple(('CONFLICT', frozenset(c)) if isinstance(c, Conflict) else c for c in r) for r in got]
        compare(got, exp)
    elif form == 'groupcountdistinctvalues':
        got = util.attempt_rows(lambda: petl.groupcountdistinctvalues(src, keyarg if not isinstance(keyarg, list) else tuple(keyarg), 'v'))
        exp = [khdr + ('value',)]
        for g in groups:
            distinct = []
            for r in g[1]:
                if not any(util.model_cmp(r[vi], x) == 0 for x in distinct):
                    distinct.append(r[vi])
            exp.append(keycells(g) + (len(distinct),))
        compare(got, exp)
    elif form in ('rowgroupby', 'rowgroupby-callable'):
        ssrc = [hdr] + sorted(table[1:], key=lambda r: util.model_key(tuple(r[i] for i in kidx)))
        if form == 'rowgroupby':
            res = util.attempt(lambda: [(k, [tuple(r) for r in g]) for k, g in petl.rowgroupby(ssrc, keyarg)])
            exp = [((keycells(g)[0] if single else keycells(g)), list(g[1])) for g in groups]
            res2 = util.attempt(lambda: [(k, list(g)) for k, g in petl.rowgroupby(copy.deepcopy(ssrc), keyarg, 'id')])
            exp2 = [((keycells(g)[0] if single else keycells(g)), [r[idi] for r in g[1]]) for g in groups]
        else:
            # a callable key is used natively (no relaxed ordering): group on the type-strict key text
            kf = lambda r: repr(util.canon(tuple(r[i] for i in kidx)))  # noqa: E731
            ssrc = [hdr] + sorted(table[1:], key=kf)
            res = util.attempt(lambda: [(k, [tuple(r) for r in g]) for k, g in petl.rowgroupby(ssrc, kf)])
            exp = []
            for r in ssrc[1:]:
                if exp and exp[-1][0] == kf(r):
                    exp[-1][1].append(tuple(r))
                else:
                    exp.append((kf(r), [tuple(r)]))
            res2 = util.attempt(lambda: [(k, list(g)) for k, g in petl.rowgroupby(copy.deepcopy(ssrc), kf, lambda r: r['id'])])
            exp2 = [(k, [r[idi] for r in g]) for k, g in exp]
        for r_, e_ in ((res, exp), (res2, exp2)):
            if isinstance(r_, util.Raised):
                out.append({'kind': 'exception', 'detail': r_.text, 'where': r_.where})
            elif util.canon(r_) != util.canon(e_):
                out.append({'kind': 'rowgroupby-differs', 'expected': e_, 'observed': r_})
    elif form in ('valuecounts', 'valuecounter'):
        fields = [hdr[i] for i in kidx]
        cnt = Counter((r[kidx[0]] if single else tuple(r[i] for i in kidx)) for r in rows)
        if form == 'valuecounter':
            got = util.attempt(lambda: petl.valuecounter(src, *fields))
            if isinstance(got, util.Raised):
                out.append({'kind': 'exception', 'detail': got.text, 'where': got.where})
            elif got != cnt or sum(got.values()) != len(rows):
                out.append({'kind': 'valuecounter-differs', 'expected': dict(cnt), 'observed': dict(got)})
        else:
            got = util.attempt_rows(lambda: petl.valuecounts(src, *fields))
            if isinstance(got, util.Raised):
                out.append({'kind': 'exception', 'detail': got.text, 'where': got.where})
            else:
                gc = {}
                for r in got[1:]:
                    gc[(r[0] if single else tuple(r[:len(kidx)]))] = r[len(kidx)]
                if gc != dict(cnt) or sum(gc.values()) != len(rows) or len(got) - 1 != len(cnt):
                    out.append({'kind': 'valuecounts-differs', 'expected': dict(cnt), 'observed': got})
                counts = [r[len(kidx)] for r in got[1:]]
                if counts != sorted(counts, reverse=True):
                    out.append({'kind': 'valuecounts-not-in-descending-count-order', 'observed': got})
    return out[:3]
