"""C05  sort / mergesort: stable ordered permutation under every buffering.

Oracle: an independent stable reference sort (util.model_sorted, built on the
documented ordering, not on petl.comparison).  Every generated table is sorted
under *every* buffersize 1..nrows+2 and None, cache on/off, tempdir set/unset,
config default, two passes; unique row ids make stability observable.  The
temp-file audit classifies each execution as in-memory or chunked.
"""
from __future__ import annotations

import copy
import itertools
import os

import petl
from petl import config as pcfg

from petlmon import gen, probes, util

ID = 'C05'
LEVEL = 'exploration'
RULE = ('cases = (table, key, reverse) for sort, (tables, key, reverse, header, missing, presorted) for mergesort; '
        'each sort case is executed under every buffersize 1..nrows+2 and None x cache x tempdir x 2 passes '
        '(directed battery + exhaustive small key columns + seeded random tables of 0-8 rows, ragged rows, mixed types). '
        'A case is non-trivial when at least two data rows have model-equal keys but different row ids '
        '(so stability is observable); distinctness = SHA-1 of the case.')
ASSUMPTIONS = ['CPython list.sort is stable (also with reverse=True)',
               'the reference ordering model in petlmon/util.py follows the text of C04',
               'pickle round-trips the generated cell values']
REQUIRED = ['sort:pass-after-a-failed-pass', 'sort:iterator-open-across-clearcache', 'long-table-sorts', 'chunked:more-than-16-chunks+ties', 'chunked:buffersize==nrows', 'chunked:buffersize==nrows-1', 'inmemory:buffersize==nrows+1', 'chunked:buffersize==1',
            'chunked:reverse+ties-across-chunks', 'pass2:file-cache', 'pass2:mem-cache', 'key-cell-missing',
            'sort-of-a-sort-view-on-part-of-the-key', 'mergesort:tie-across-tables', 'mergesort:inputs-are-sort-views', 'mergesort:presorted', 'config.sort_buffersize-used']
EXHAUSTIVE = {'quick': False, 'thorough': False}

_audit = None


def setup(ctx):
    global _audit
    _audit = probes.TempAudit()
    _audit.__enter__()
    os.makedirs(os.path.join(_audit.dir, 'sub'), exist_ok=True)


def teardown(ctx):
    if _audit is not None:
        _audit.__exit__(None, None, None)


# ---------------------------------------------------------------------------

def _battery():
    H = ['k', 'v', 'id']
    yield {'kind': 'sort', 'table': [H] + [[k, 'x', 'r%d' % i] for i, k in enumerate([2, 1, 2, 1, 2, 1])], 'key': 'k', 'reverse': False}
    yield {'kind': 'sort', 'table': [H] + [[k, 'x', 'r%d' % i] for i, k in enumerate([2, 1, 2, 1, 2, 1])], 'key': 'k', 'reverse': True}
    yield {'kind': 'sort', 'table': [H] + [[k, 'x', 'r%d' % i] for i, k in enumerate([1, 1.0, True, None, 'a', b'a', 1])], 'key': 'k', 'reverse': True}
    yield {'kind': 'sort', 'table': [H] + [[1, 'x', 'r0'], [], [1], [None, 'y', 'r3'], [1, 'z', 'r4', 'extra']], 'key': ('k', 'v'), 'reverse': False}
    yield {'kind': 'sort', 'table': [H] + [[1, 'x', 'r0'], [], [1], [None, 'y', 'r3']], 'key': 'v', 'reverse': True}
    yield {'kind': 'sort', 'table': [H], 'key': 'k', 'reverse': False}
    yield {'kind': 'sort', 'table': [H, [1, 2, 'r0']], 'key': None, 'reverse': False}
    yield {'kind': 'sort', 'table': [['k', 'id']] + [[k, 'r%d' % i] for i, k in enumerate([(1, 2), [1, 2], (1, None), 'a', 2, None, (1,)])], 'key': 0, 'reverse': False}
    yield {'kind': 'sort', 'table': [['k', 'k2', 'id']] + [[k, 'q', 'r%d' % i] for i, k in enumerate([3, 1, 2, 3, 1, 2, 3])], 'key': None, 'reverse': True}
    # mergesort
    A = [['k', 'id'], [1, 'a0'], [2, 'a1'], [2, 'a2']]
    B = [['k', 'id'], [2, 'b0'], [1, 'b1'], [3, 'b2']]
    C = [['id', 'k', 'w'], ['c0', 2, 'w0'], ['c1', None, 'w1']]
    for rev in (False, True):
        yield {'kind': 'mergesort', 'tables': [A, B], 'key': 'k', 'reverse': rev, 'header': None, 'missing': None, 'presorted': False}
        yield {'kind': 'mergesort', 'tables': [A, B, C], 'key': 'k', 'reverse': rev, 'header': None, 'missing': 'M', 'presorted': False}
        yield {'kind': 'mergesort', 'tables': [A, B], 'key': 'k', 'reverse': rev, 'header': None, 'missing': None, 'presorted': True}
        yield {'kind': 'mergesort', 'tables': [A, C], 'key': ('k', 'id'), 'reverse': rev, 'header': ['k', 'id'], 'missing': None, 'presorted': False}
    yield {'kind': 'mergesort', 'tables': [A, [['k', 'id']]], 'key': 'k', 'reverse': False, 'header': None, 'missing': None, 'presorted': False}
    yield {'kind': 'mergesort', 'tables': [[['k', 'id']], [['k', 'id']]], 'key': 'k', 'reverse': False, 'header': None, 'missing': None, 'presorted': False}
    yield {'kind': 'mergesort', 'tables': [A, B], 'key': None, 'reverse': False, 'header': None, 'missing': None, 'presorted': False}
    yield {'kind': 'mergesort', 'tables': [[['k', 'id'], [None, 'a0'], ['x', 'a1']], [['k', 'id'], [1, 'b0']]], 'key': None, 'reverse': False, 'header': None, 'missing': None, 'presorted': False}


def cases(ctx):
    for c in _battery():
        yield c
    # exhaustive small key columns (all arrangements of 3 key values over n rows)
    maxn = ctx.pick(5, 7)
    for n in range(0, maxn + 1):
        for col in itertools.product([None, 1, 'a'], repeat=n):
            t = [['k', 'id']] + [[k, 'r%d' % i] for i, k in enumerate(col)]
            for rev in (False, True):
                yield {'kind': 'sort', 'table': t, 'key': 'k', 'reverse': rev}
    # rows that tie under the key as the header defines it but differ beyond it - surplus cells of long rows, or a cell that one row
    # lacks and the other holds as None: they keep their input order, under the whole-row key (key=None) and under explicit keys
    tied = [['x', 1, 'zz'], ['x', 1, 'aa'], ['x', 1], ['x', 1, None, 0], ['x'], ['x', None], ['a', 2, 'q']]
    for perm in itertools.permutations(range(len(tied)), 4):
        if ctx.quick and sum(perm) % 4:
            continue
        t = [['k', 'v']] + [list(tied[i]) for i in perm]
        for key in (None, ('k', 'v'), 'k'):
            for rev in (False, True):
                yield {'kind': 'sort', 'table': t, 'key': key, 'reverse': rev, 'tied-beyond-the-header': True}
    rng = ctx.rng('random')
    for i in range(ctx.pick(2500, 60000)):
        pool = gen.KEY_POOL if rng.random() < 0.6 else gen.POOL
        nf = rng.randint(1, 3)
        t = gen.table(rng, nrows=rng.randint(0, 8), nfields=nf, pool=pool, ragged=0.25 if rng.random() < 0.4 else 0.0, ids=True)
        key = gen.keyspec(rng, t[0][:-1])
        yield {'kind': 'sort', 'table': t, 'key': key, 'reverse': rng.random() < 0.5}
    # long tables with few distinct keys: dozens of chunk files, ties spanning early and late chunks (a merge that
    # cascades, batches or re-orders its runs shows only when there are many of them)
    rngl = ctx.rng('large')
    for i in range(ctx.pick(60, 900)):
        n = rngl.choice([17, 24, 33, 40, 65, 120])
        kp = rngl.sample([None, 1, 2, 3.5, 'a', 'b', (1, 2), True], rngl.randint(2, 4))
        t = [['k', 'j', 'id']] + [[rngl.choice(kp), rngl.choice(kp), 'r%d' % r] for r in range(n)]
        yield {'kind': 'sort', 'table': t, 'key': rngl.choice(['k', ('k', 'j'), 'j', None, 0]), 'reverse': rngl.random() < 0.5,
               'buffersizes': sorted(set([1, 2, 3, rngl.randint(4, 9), rngl.randint(10, 40)]))}
    for i in range(ctx.pick(1500, 30000)):
        nt = rng.randint(2, 3)
        same = rng.random() < 0.5
        pool = [None, 1, 2, 1.0, 'a', 'b'] if rng.random() < 0.7 else gen.SCALAR_POOL
        tables = []
        for j in range(nt):
            hdr = ['k', 'v'] if same else rng.sample(['k', 'v', 'w'], rng.randint(2, 3))
            if 'k' not in hdr:
                hdr[0] = 'k'
            t = gen.table(rng, nrows=rng.randint(0, 4), header=hdr, nfields=len(hdr), pool=pool, ids=False,
                          ragged=0.2 if rng.random() < 0.25 else 0.0)
            for r_i, r in enumerate(t[1:]):
                if len(r) == len(hdr):
                    r[-1] = 't%dr%d' % (j, r_i) if hdr[-1] != 'k' else r[-1]
            tables.append(t)
        # with equal headers the key is also given by position (0 included): an index, a tuple of indices, a mixed tuple
        key = rng.choice(['k', 'k', ('k',), ('k', 'v'), None, 0, 0, (0,), (0, 1), ('k', 1), 1]) if same else rng.choice(['k', 'k', ('k',), None])
        yield {'kind': 'mergesort', 'tables': tables, 'key': key, 'reverse': rng.random() < 0.5,
               'header': None if rng.random() < 0.8 else ['k', 'v'], 'missing': rng.choice([None, None, 'M']),
               'presorted': rng.random() < 0.3}


# ---------------------------------------------------------------------------

def _expected_sort(table, key, reverse):
    hdr = table[0]
    rows = [tuple(r) for r in table[1:]]
    if key is None:
        idx = list(range(len(hdr)))
    else:
        idx = gen.resolve_key(hdr, key)
    keyfn = lambda r: gen.keyval(r, idx)  # noqa: E731
    return [tuple(hdr)] + util.model_sorted(rows, keyfn, reverse), keyfn


def judge(case, ctx):
    if case['kind'] == 'sort':
        return _judge_sort(case, ctx)
    return _judge_mergesort(case, ctx)


def _judge_sort(case, ctx):
    table, key, reverse = case['table'], case['key'], case['reverse']
    n = len(table) - 1
    exp, keyfn = _expected_sort(table, key, reverse)
    cexp = util.crows(exp)
    # non-triviality: two rows with equal keys, distinguishable
    keys = [keyfn(tuple(r)) for r in table[1:]]
    ties = any(util.model_eq(keys[i], keys[j]) and util.crow(table[1 + i]) != util.crow(table[1 + j])
               for i in range(n) for j in range(i + 1, n))
    if ties:
        ctx.mark_nontrivial()
    if any(len(r) < len(table[0]) for r in table[1:]):
        ctx.seen('key-cell-missing')
    ctx.op('sort')
    out = []
    sub = os.path.join(_audit.dir, 'sub')
    pre_sorted_input = None
    if isinstance(key, (list, tuple)) and len(key) >= 2 and int(util.fp(case)[4:6], 16) % 3 == 0:
        pre_sorted_input = [key[0], list(key[:-1]), tuple(key), key[-1]][int(util.fp(case)[6:8], 16) % 4]
        ctx.seen('sort-of-a-sort-view-on-part-of-the-key')
    if case.get('buffersizes'):
        ctx.seen('long-table-sorts')
    for bs in (case.get('buffersizes') or list(range(1, n + 3))) + [None, 'config']:
        for cache in (True, False):
            for tempdir in ((None, sub) if bs in (1, n) else (None,)):
                src = copy.deepcopy(table)
                kw = {'cache': cache}
                if tempdir:
                    kw['tempdir'] = tempdir
                if bs == 'config':
                    pcfg.sort_buffersize = max(1, n - 1)
                    eff = pcfg.sort_buffersize
                elif bs is None:
                    pcfg.sort_buffersize = 100000
                    eff = None
                else:
                    kw['buffersize'] = bs
                    eff = bs
                before = len(_audit.created)
                if pre_sorted_input:
                    # the input is itself a sort view, on a leading part of the key, on the same key, or on its last field (same
                    # direction): a stable sort of it by the full key gives what sorting the plain table gives
                    src = petl.sort(src, pre_sorted_input, reverse=reverse)
                view = petl.sort(src, key, reverse=reverse, **kw)
                for p in (1, 2):
                    c0 = len(_audit.created)
                    got = util.attempt_rows(lambda: view)
                    ctx.seen('sort-executions')
                    if isinstance(got, util.Raised) or util.crows(got) != cexp:
                        out.append({'kind': 'sort-output-differs', 'buffersize': bs, 'cache': cache, 'tempdir': bool(tempdir),
                                    'pass': p, 'expected': exp, 'observed': got if not isinstance(got, util.Raised) else repr(got)})
                        break
                    if p == 2 and cache:
                        if view._filecache is not None and len(_audit.created) == c0:
                            ctx.seen('pass2:file-cache')
                        elif view._memcache is not None:
                            ctx.seen('pass2:mem-cache')
                nchunks = len(_audit.created) - before
                if bs == 'config':
                    if nchunks:
                        ctx.seen('config.sort_buffersize-used')
                    continue
                if tempdir and nchunks:
                    if not all(pth.startswith(sub) for pth in _audit.created[before:]):
                        out.append({'kind': 'tempdir-not-honoured', 'buffersize': bs})
                    ctx.seen('chunked:tempdir')
                mode = 'chunked' if nchunks else 'inmemory'
                if eff is not None and n >= 1:
                    rel = {n: 'nrows', n - 1: 'nrows-1', n + 1: 'nrows+1'}.get(eff)
                    if rel:
                        ctx.seen('%s:buffersize==%s' % (mode, rel))
                    if eff == 1 and n > 1:
                        ctx.seen('%s:buffersize==1' % mode)
                    if nchunks > 16 and ties:
                        ctx.seen('chunked:more-than-16-chunks+ties')
                    if nchunks and reverse and ties and eff < n:
                        ctx.seen('chunked:reverse+ties-across-chunks')
                    if nchunks and ties and not reverse and eff < n:
                        ctx.seen('chunked:ties-across-chunks')
                del view
        if len(out) > 3:
            break
    # ---- the same sequence also after a pass that failed, and for a pass that was open while the cache was cleared
    if not out and n >= 2:
        from petlmon import probes as _pr
        for bs in sorted({1, max(1, n // 2), n + 1}):
            for fail_at in sorted({2, n}):
                fsrc = _pr.FailingSource(copy.deepcopy(table), fail_at=fail_at, only_pass=1)
                view = petl.sort(fsrc, key, reverse=reverse, buffersize=bs)
                try:
                    for _ in iter(view):
                        pass
                except _pr.InjectedFault:
                    ctx.seen('sort:pass-after-a-failed-pass')
                got = util.attempt_rows(lambda: view)
                if isinstance(got, util.Raised) or util.crows(got) != cexp:
                    out.append({'kind': 'sort-output-differs', 'buffersize': bs, 'after': 'a pass in which the source failed at row %d' % fail_at,
                                'expected': exp, 'observed': got if not isinstance(got, util.Raised) else repr(got)})
                    break
                del view
            if out:
                break
            view = petl.sort(copy.deepcopy(table), key, reverse=reverse, buffersize=bs)
            first = util.attempt_rows(lambda: view)            # fills the cache
            it = iter(view)
            part = [tuple(next(it)) for _ in range(2)]
            view.clearcache()
            got = util.attempt_rows(lambda: part + [tuple(r) for r in it])
            ctx.seen('sort:iterator-open-across-clearcache')
            if isinstance(first, util.Raised) or isinstance(got, util.Raised) or util.crows(got) != cexp:
                out.append({'kind': 'sort-output-differs', 'buffersize': bs, 'after': 'clearcache() while this iterator was open',
                            'expected': exp, 'observed': got if not isinstance(got, util.Raised) else repr(got)})
                break
            del view, it
    if _audit.live() or _audit.listing():
        # not C05's verdict (C18 owns it) but never let files pile up silently
        ctx.seen('tempfiles-left-after-case', len(_audit.listing()))
    return out


def _ref_cat(tables, header, missing):
    hdrs = [[str(f) for f in t[0]] for t in tables]
    if header is None:
        outhdr = []
        for h in hdrs:
            for f in h:
                if f not in outhdr:
                    outhdr.append(f)
    else:
        outhdr = list(header)
    rows = []
    for h, t in zip(hdrs, tables):
        for r in t[1:]:
            o = []
            for f in outhdr:
                if f in h and h.index(f) < len(r):
                    o.append(r[h.index(f)])
                else:
                    o.append(missing)
            rows.append(tuple(o))
    return outhdr, rows


def _judge_mergesort(case, ctx):
    tables = case['tables']
    key, reverse, header, missing, presorted = case['key'], case['reverse'], case['header'], case['missing'], case['presorted']
    ctx.op('mergesort')
    outhdr, rows = _ref_cat(tables, header, missing)
    if key is None:
        idx = list(range(len(outhdr)))
    else:
        try:
            idx = gen.resolve_key(outhdr, key)
        except ValueError:
            return None
    keyfn = lambda r: gen.keyval(r, idx)  # noqa: E731
    exp = [tuple(outhdr)] + util.model_sorted(rows, keyfn, reverse)
    srcs = copy.deepcopy(tables)
    if presorted:
        # inputs sorted with the reference sort by the same key, per table
        ps = []
        for t in srcs:
            try:
                tidx = gen.resolve_key(t[0], key) if key is not None else list(range(len(t[0])))
            except ValueError:
                return None
            ps.append([t[0]] + util.model_sorted(t[1:], lambda r: gen.keyval(r, tidx), reverse))
        srcs = ps
        if key is None and any([str(f) for f in t[0]] != outhdr for t in tables):
            return None   # 'sorted by the whole row' means a different order for every input header: no presorted claim
        ctx.seen('mergesort:presorted')
    keys = [keyfn(r) for r in rows]
    bounds = []
    for t in tables:
        bounds.append((bounds[-1] if bounds else 0) + len(t) - 1)
    tie = False
    for i in range(len(rows)):
        for j in range(i + 1, len(rows)):
            if util.model_eq(keys[i], keys[j]) and util.crow(rows[i]) != util.crow(rows[j]):
                ti = sum(1 for b in bounds if i >= b)
                tj = sum(1 for b in bounds if j >= b)
                if ti != tj:
                    tie = True
    if tie:
        ctx.seen('mergesort:tie-across-tables')
        ctx.mark_nontrivial()
    out = []
    kw = dict(key=key, reverse=reverse, missing=missing, presorted=presorted)
    if header is not None:
        kw['header'] = header
    form = int(util.fp(case)[4:6], 16) % 8
    if form < 4 and not presorted:
        # the inputs are themselves views: sorts on the same key (in the same or the opposite direction), on another key, or plain
        # wrappers.  A stable sort leaves equal keys in table order in either direction, so the merged result is the same
        def resolves(t):
            try:
                return key is None or bool(gen.resolve_key(t[0], key))
            except ValueError:
                return False
        if all(resolves(t) for t in srcs):
            mk = [lambda t: petl.sort(t, key, reverse=not reverse), lambda t: petl.sort(t, key, reverse=reverse),
                  lambda t: petl.sort(petl.sort(t, key, reverse=not reverse, buffersize=2), key, reverse=reverse), petl.wrap][form]
            srcs = [mk(t) for t in srcs]
            ctx.seen('mergesort:inputs-are-sort-views')
    for bs in (None, 1, 2):
        if bs is not None:
            kw['buffersize'] = bs
        view = petl.mergesort(*srcs, **kw)
        for p in (1, 2):
            got = util.attempt_rows(lambda: view)
            ctx.seen('mergesort-executions')
            if isinstance(got, util.Raised) or util.crows(got) != util.crows(exp):
                out.append({'kind': 'mergesort-differs-from-reference', 'buffersize': bs, 'pass': p, 'expected': exp,
                            'observed': got if not isinstance(got, util.Raised) else repr(got)})
                break
        if out:
            break
    # the property's own formulation: mergesort == sort(cat(...)) as petl computes it
    ckw = {'missing': missing}
    if header is not None:
        ckw['header'] = header
    twin = util.attempt_rows(lambda: petl.sort(petl.cat(*copy.deepcopy(tables), **ckw), key, reverse=reverse))
    got = util.attempt_rows(lambda: petl.mergesort(*srcs, **kw))
    if isinstance(twin, util.Raised):
        ctx.seen('mergesort:sort(cat) itself raised')
    elif isinstance(got, util.Raised) or util.crows(got) != util.crows(twin):
        if not out:
            out.append({'kind': 'mergesort-differs-from-sort-cat', 'expected': twin,
                        'observed': got if not isinstance(got, util.Raised) else repr(got)})
    return out
