"""C16  Pass-through views are transparent; a consumed tee writes what to* writes.

Differential monitor: two petl paths that the property says must agree.
(1) rows yielded by tee* / progress / log_progress / clock / cache / wrap vs
the rows of the wrapped table; (2) bytes in the tee target after the view has
been iterated to the end vs bytes written by the matching to* function with
the same arguments into a fresh target (MemorySource and file path targets).
"""
from __future__ import annotations

import copy
import io
import logging
import os

import petl
from petl.io.sources import MemorySource
from petl.util.materialise import cache as _cache

from petlmon import gen, util

ID = 'C16'
LEVEL = 'exploration'
RULE = ('cases = (pass-through function, table, arguments, target kind); seeded random tables of 0-5 rows x 1-3 fields (text, numbers, None, '
        'non-ASCII, delimiters / quotes / line breaks in cells), ragged rows and header-only tables; arguments: write_header, encoding, csv '
        'dialect arguments, pickle protocol, text template / prologue / epilogue, html caption / index_header / truncate / td_styles / tr_style / '
        'lineterminator; progress batch sizes 1, 2, nrows, nrows+1; cache limits n in {1, nrows-1, nrows, nrows+1, None} over three passes. '
        'Non-trivial: the table has >= 2 data rows. Distinct = SHA-1 of the case.')
ASSUMPTIONS = ['tee targets: MemorySource and plain file paths', 'a tee is compared with to* only after it was iterated to the end']
FNS = ['teecsv', 'teetsv', 'teepickle', 'teetext', 'teehtml', 'progress', 'log_progress', 'clock', 'cache', 'wrap']
REQUIRED = ['progress-under-a-clock-that-does-not-advance', 'teehtml:tr_style-reads-a-field-by-name', 'progress-default-batchsize-over-several-batches', 'cache-cleared-while-a-pass-is-part-way', 'teetext:repeated-field-name-in-the-template', 'field-names-that-are-not-strings', 'table-without-any-row', 'header-without-fields', 'explicit-csv-dialect'] + ['fn:' + f for f in FNS] + ['tee-bytes-compared', 'ragged-table', 'header-only-table', 'write_header=False', 'file-target', 'memory-target',
                                         'cache-limited', 'non-utf8-encoding', 'cache-interleaved-iterators']
TEXT = ['', 'a', 'b c', 'x,y', 'q"q', "it's", 'é', '€', 'l1\nl2', 'cr\rlf', 'tab\there', '<b>&amp;</b>', ' pad ', '1', '2.5', 'None']
MIXED = TEXT + [None, 0, 1, -3, 2.5, True, gen.D(2020, 1, 1), (1, 2), b'by']


def cases(ctx):
    rng = ctx.rng('cases')
    # the default batch size (1000 rows) over tables that end just before, at and after a batch boundary
    for fn in ('progress', 'log_progress'):
        for n in (999, 1000, 1001, 2000, 2500):
            for clock in ('real', 'frozen'):
                yield {'fn': fn, 'table': [['f0', 'f1']] + [[i, 'v%d' % (i % 7)] for i in range(n)], 'target': 'memory', 'batchsize': None, 'prefix': '', 'clock': clock}
    for i in range(ctx.pick(30000, 400000)):
        fn = FNS[i % len(FNS)]
        nf = rng.randint(1, 3)
        n = rng.choice([0, 0, 1, 2, 3, 4, 5])
        pool = TEXT if (fn in ('teecsv', 'teetsv') and rng.random() < 0.5) else MIXED
        t = gen.table(rng, nrows=n, nfields=nf, pool=pool, ragged=0.35 if rng.random() < 0.4 else 0.0)
        if rng.random() < 0.3:
            t[0] = [rng.choice(['h', 'héader', 'a b', 'x<y']) + str(j) for j in range(nf)]
        if fn != 'teetext' and rng.random() < 0.08:
            t[0] = [rng.choice([2019 + j, 2.5 + j, None, (j,)]) for j in range(nf)]     # field names that are not strings
        if fn != 'teetext' and rng.random() < 0.04:
            t = []           # a table that yields nothing at all, not even a header: nothing comes out (and the tee target still equals
            #                  what to* writes for it)
        c = {'fn': fn, 'table': t, 'target': rng.choice(['memory', 'file'])}
        if fn in ('teecsv', 'teetsv', 'teetext', 'teehtml') and rng.random() < 0.3:
            # errors=: what the codec does with a character the encoding lacks; with a policy other than 'strict' the ascii / latin-1
            # encodings are kept for tables they cannot represent, and the tee target must still equal what to* writes
            c['errors'] = rng.choice(['strict', 'replace', 'ignore', 'xmlcharrefreplace', 'backslashreplace'])
        if fn.startswith('tee'):
            # an earlier pass over the same tee view (abandoned after the header or a few rows, or complete) before the judged one:
            # the target holds what the *last complete* pass wrote
            c['prepass'] = rng.choice([None, None, 'header', 'partial', 'full'])
        if fn in ('teecsv', 'teetsv'):
            c['write_header'] = rng.random() < 0.75
            c['encoding'] = rng.choice([None, 'utf-8', 'utf-16', 'latin-1', 'utf-8-sig'])
            c['csvargs'] = rng.choice([{}, {}, {'delimiter': ';'}, {'quotechar': "'"}, {'quoting': 1}, {'quoting': 2}, {'lineterminator': '\n'},
                                       {'delimiter': '|', 'quoting': 1}, {'dialect': 'unix'}, {'dialect': 'excel'}, {'dialect': 'excel-tab'},
                                       {'dialect': 'unix', 'delimiter': ';'}])
            if fn == 'teetsv' and 'delimiter' in c['csvargs'] and 'dialect' not in c['csvargs']:
                c['csvargs'] = {}
        elif fn == 'teepickle':
            c['write_header'] = rng.random() < 0.75
            c['protocol'] = rng.choice([-1, 0, 2, 4])
        elif fn == 'teetext':
            if rng.random() < 0.04:
                t = rng.choice([[[]], [()], [[], [], []]])        # a header without any field (and rows without any cell)
                c['table'] = t
                c['zero-fields'] = True
            c['encoding'] = rng.choice([None, 'utf-8', 'utf-16', 'latin-1'])
            c['template'] = rng.choice(['{f0}\n', '{f0}|{%s}\r\n' % ('f%d' % (nf - 1)), 'row: {f0!r} / {f0}\n'])
            if c.get('zero-fields'):
                c['template'] = 'row\n'
            elif not all(str(h).startswith('f') for h in t[0]):
                t[0] = gen.fieldnames(nf)
            if not c.get('zero-fields') and nf >= 2 and rng.random() < 0.15:
                # a field name that occurs twice, and that the template asks for
                t[0] = list(t[0])
                t[0][nf - 1] = t[0][0]
                c['template'] = rng.choice(['{f0}\n', 'row: {f0!r} / {f0}\n'])
                c['repeated-name'] = True
            c['prologue'] = rng.choice([None, 'BEGIN\n', 'é\n'])
            c['epilogue'] = rng.choice([None, 'END\n'])
        elif fn == 'teehtml':
            c['encoding'] = rng.choice([None, 'utf-8', 'utf-16'])
            c['caption'] = rng.choice([None, 'cap', 'cäp'])
            c['index_header'] = rng.random() < 0.3
            c['truncate'] = rng.choice([None, None, 1, 3])
            c['td_styles'] = rng.choice([None, None, 'color: red', 'dict', 'callable'])
            c['tr_style'] = rng.choice([None, None, 'font-weight: bold', 'callable'])
            c['lineterminator'] = rng.choice(['\n', '\r\n', ''])
            c['vrepr'] = rng.choice([None, None, 'repr', 'callable'])
        elif fn in ('progress', 'log_progress'):
            c['batchsize'] = rng.choice([1, 2, max(1, n), n + 1, 1000])
            c['prefix'] = rng.choice(['', 'p: '])
            c['clock'] = rng.choice(['real', 'real', 'frozen', 'coarse'])     # a clock too coarse to time a batch reads the same twice
        elif fn == 'cache':
            c['n'] = rng.choice([None, 1, max(1, n - 1), max(1, n), n + 1, n + 2])
        yield c


# ---------------------------------------------------------------------------

def _latin(table):
    return all(_enc_ok(c, 'latin-1') for r in table for c in r)


def _enc_ok(v, enc):
    try:
        str(v).encode(enc)
        return True
    except UnicodeError:
        return False


def _judge_progress(case, ctx, fn, table, sink, same_rows, out):
    bs = (case['batchsize'],) if case['batchsize'] is not None else ()      # () = the documented default of 1000 rows
    if not bs:
        ctx.seen('progress-default-batchsize-over-several-batches')
    if fn == 'progress':
        v = petl.progress(table, *bs, prefix=case['prefix'], out=sink)
    else:
        lg = logging.getLogger('petlmon.c16')
        lg.propagate = False
        lg.handlers = [logging.StreamHandler(sink)]
        lg.setLevel(logging.INFO)
        v = petl.log_progress(table, *bs, prefix=case['prefix'], logger=lg)
    for p in (1, 2):
        same_rows(util.attempt_rows(lambda: v), 'pass%d' % p)
    ctx.seen('progress-messages', len(sink.getvalue().splitlines()))
    return out


def judge(case, ctx):
    fn = case['fn']
    ctx.op('fn:' + fn)
    table = copy.deepcopy(case['table'])
    rows = [tuple(r) for r in table]
    n = len(rows) - 1
    if not table:
        ctx.seen('table-without-any-row')
    elif len(table[0]) == 0:
        ctx.seen('header-without-fields')
    if 'dialect' in (case.get('csvargs') or {}):
        ctx.seen('explicit-csv-dialect')
    if n >= 2:
        ctx.mark_nontrivial()
    if case.get('repeated-name'):
        ctx.seen('teetext:repeated-field-name-in-the-template')
    if n == 0:
        ctx.seen('header-only-table')
    if table and any(not isinstance(h, str) for h in table[0]):
        ctx.seen('field-names-that-are-not-strings')
    if any(len(r) != len(table[0]) for r in table[1:]):
        ctx.seen('ragged-table')
    out = []

    def same_rows(got, what):
        if isinstance(got, util.Raised):
            out.append({'kind': 'exception', 'fn': fn, 'detail': got.text, 'where': got.where, 'at': what})
            return False
        if util.crows(got) != util.crows(rows):
            out.append({'kind': 'rows-not-transparent', 'fn': fn, 'at': what, 'expected': rows, 'observed': got})
            return False
        return True

    if fn == 'wrap':
        same_rows(util.attempt_rows(lambda: petl.wrap(table)), 'wrap')
        return out
    if fn == 'clock':
        v = petl.clock(table)
        for p in (1, 2):
            same_rows(util.attempt_rows(lambda: v), 'pass%d' % p)
        return out
    if fn in ('progress', 'log_progress'):
        sink = io.StringIO()
        if case.get('clock', 'real') != 'real':
            import petl.util.timing as _timing
            import time as _time

            class _Clock(object):
                # stands in for the `time` module inside petl.util.timing for this case only
                calls = 0

                def time(self):
                    self.calls += 1
                    return 1000.0 if case['clock'] == 'frozen' else 1000.0 + self.calls // 3

                def __getattr__(self, name):
                    return getattr(_time, name)
            real = _timing.time
            _timing.time = _Clock()
            ctx.seen('progress-under-a-clock-that-does-not-advance')
            try:
                return _judge_progress(case, ctx, fn, table, sink, same_rows, out)
            finally:
                _timing.time = real
        return _judge_progress(case, ctx, fn, table, sink, same_rows, out)
    if fn == 'cache':
        lim = case['n']
        if lim is not None and lim < len(rows):
            ctx.seen('cache-limited')
        v = _cache(table, n=lim)
        for p in (1, 2, 3):
            if not same_rows(util.attempt_rows(lambda: v), 'pass%d (n=%r)' % (p, lim)):
                break
        # two iterators advanced in turns (lagging and round-robin): each must deliver the wrapped rows
        for lead in (1, 2, 3):
            v2 = _cache(copy.deepcopy(case['table']), n=lim)
            a, b = iter(v2), iter(v2)
            ga, gb = [], []
            try:
                for _ in range(lead):
                    ga.append(tuple(next(a)))
                gb.append(tuple(next(b)))
                while True:
                    moved = False
                    for it_, g_ in ((a, ga), (b, gb)):
                        try:
                            g_.append(tuple(next(it_)))
                            moved = True
                        except StopIteration:
                            pass
                    if not moved:
                        break
            except StopIteration:
                pass
            for who, g_ in (('leader', ga), ('follower', gb)):
                if util.crows(g_) != util.crows(rows[:len(g_)]) or (len(rows) >= lead and len(g_) != len(rows)):
                    out.append({'kind': 'rows-not-transparent', 'fn': 'cache', 'at': '%s of two interleaved iterators (lead %d, n=%r)' % (who, lead, lim),
                                'expected': rows, 'observed': g_})
                    return out
            ctx.seen('cache-interleaved-iterators')
        # partial pass, then full passes
        v = _cache(copy.deepcopy(case['table']), n=lim)
        it = iter(v)
        for _ in range(min(2, len(rows))):
            next(it)
        del it
        for p in (1, 2):
            if not same_rows(util.attempt_rows(lambda: v), 'pass%d after a partial pass (n=%r)' % (p, lim)):
                break
        # clearcache() while a pass is part-way: that pass runs on to its end, and the passes after it are complete too
        for k_ in range(0, len(rows) + 1):
            v = _cache(copy.deepcopy(case['table']), n=lim)
            it = iter(v)
            got_ = []
            try:
                for _ in range(k_):
                    got_.append(tuple(next(it)))
                v.clearcache()
                got_.extend(tuple(r) for r in it)
            except StopIteration:
                pass
            ctx.seen('cache-cleared-while-a-pass-is-part-way')
            if not same_rows(got_, 'the pass during which clearcache() was called after %d rows (n=%r)' % (k_, lim)):
                break
            ok_ = True
            for p in (1, 2):
                ok_ = ok_ and same_rows(util.attempt_rows(lambda: v), 'pass%d after a pass with clearcache() at row %d (n=%r)' % (p, k_, lim))
            if not ok_:
                break
        return out

    # ---- tees: rows + bytes vs to*
    enc = case.get('encoding')
    errors = case.get('errors')
    if errors not in (None, 'strict') and fn != 'teepickle':
        if enc in (None, 'utf-8', 'utf-8-sig') and case.get('narrow', True):
            enc = 'ascii' if (len(case['table']) % 2) else 'latin-1'
        if not all(_enc_ok(c, enc) for r in table for c in r):
            ctx.seen('errors=%s-with-a-character-the-encoding-lacks' % errors)
    elif enc in ('latin-1',) and not _latin(table):
        enc = 'utf-8'
    if enc not in (None, 'utf-8'):
        ctx.seen('non-utf8-encoding')
    kw = {}
    if enc is not None:
        kw['encoding'] = enc
    if errors is not None and fn != 'teepickle':
        kw['errors'] = errors
        ctx.seen('errors=' + errors)
    if fn in ('teecsv', 'teetsv'):
        if not case['write_header']:
            kw['write_header'] = False
            ctx.seen('write_header=False')
        kw.update(case['csvargs'])
        tee, to = getattr(petl, fn), getattr(petl, 'to' + fn[3:])
    elif fn == 'teepickle':
        kw = {'protocol': case['protocol']}
        if not case['write_header']:
            kw['write_header'] = False
            ctx.seen('write_header=False')
        tee, to = petl.teepickle, petl.topickle
    elif fn == 'teetext':
        kw['template'] = case['template']
        if case['prologue'] is not None:
            kw['prologue'] = case['prologue'] if (enc != 'latin-1') else 'BEGIN\n'
        if case['epilogue'] is not None:
            kw['epilogue'] = case['epilogue']
        tee, to = petl.teetext, petl.totext
    else:
        if case['caption'] is not None:
            kw['caption'] = case['caption']
        if case['index_header']:
            kw['index_header'] = True
        if case['truncate']:
            kw['truncate'] = case['truncate']
        if case['td_styles'] == 'dict' and table:
            kw['td_styles'] = {table[0][0]: 'color: blue', table[0][-1]: (lambda v: 'x: %s' % type(v).__name__)}
        elif case['td_styles'] == 'callable':
            kw['td_styles'] = lambda v: 'len: %d' % len(str(v))
        elif case['td_styles']:
            kw['td_styles'] = case['td_styles']
        if case['tr_style'] == 'callable':
            # the documented contract: the callable is handed each row as a record, so a field can be read by its name
            name0 = table[0][0] if (table and len(table[0]) and isinstance(table[0][0], str) and list(table[0]).count(table[0][0]) == 1) else None
            if name0 is not None:
                ctx.seen('teehtml:tr_style-reads-a-field-by-name')
                kw['tr_style'] = lambda row, name0=name0: 'n: %d; first: %s' % (len(row), type(row[name0]).__name__)
            else:
                kw['tr_style'] = lambda row: 'n: %d' % len(row)
        elif case['tr_style']:
            kw['tr_style'] = case['tr_style']
        kw['lineterminator'] = case['lineterminator']
        if case.get('vrepr') == 'repr':
            kw['vrepr'] = repr
        elif case.get('vrepr') == 'callable':
            kw['vrepr'] = lambda v: '[%s]' % (v,)
        tee, to = petl.teehtml, petl.tohtml

    def target(tag):
        if case['target'] == 'memory':
            ctx.seen('memory-target')
            return MemorySource()
        ctx.seen('file-target')
        return os.path.join(ctx.scratch, 'c16-%d-%s.out' % (os.getpid(), tag))

    def read(t):
        if isinstance(t, MemorySource):
            return t.getvalue()
        with open(t, 'rb') as f:
            return f.read()
    t1, t2 = target('tee'), target('to')
    ref = util.attempt(lambda: to(copy.deepcopy(case['table']), t2, **kw))
    if isinstance(ref, util.Raised):
        # the writer itself rejects these arguments for this table (e.g. an unencodable cell): nothing to compare
        ctx.seen('to*-raised')
        return None
    view = tee(table, t1, **kw)
    pre = case.get('prepass')
    if pre:
        ctx.seen('tee-view-iterated-before:' + pre)
        if pre == 'full':
            same_rows(util.attempt_rows(lambda: view), 'tee pass (earlier)')
        else:
            it = iter(view)
            for _ in range(1 if pre == 'header' else 3):
                try:
                    next(it)
                except StopIteration:
                    break
                except Exception as e:  # noqa
                    out.append({'kind': 'exception', 'fn': fn, 'detail': '%s: %s' % (type(e).__name__, e), 'at': 'earlier partial pass'})
                    break
            it.close()
            del it
    if same_rows(util.attempt_rows(lambda: view), 'tee pass'):
        b1, b2 = read(t1), read(t2)
        ctx.seen('tee-bytes-compared')
        if b1 != b2:
            out.append({'kind': 'tee-target-differs-from-to*', 'fn': fn, 'args': {k: (v if not callable(v) else 'callable') for k, v in kw.items() if k != 'td_styles'},
                        'tee-bytes': repr(b1[:300]), 'to-bytes': repr(b2[:300])})
    for t in (t1, t2):
        if not isinstance(t, MemorySource) and os.path.exists(t):
            os.remove(t)
    return out
