"""C19  The failonerror policy decides exactly what a failing conversion becomes.

The converter / mapper handed to petl is the probe: it raises a private
exception carrying (row id, field) for the chosen failing positions and logs
every call.  Rows are pulled one next() at a time so that the point where an
exception surfaces is located exactly.  Every subset of failing row positions
is enumerated (n <= 4 in quick, n <= 6 in thorough).
"""
from __future__ import annotations

import itertools

import petl
from petl import config as pcfg

from petlmon import util
from petlmon.probes import InjectedFault

ID = 'C19'
LEVEL = 'fault_enumeration'
RULE = ('cases = (function form, nrows, set of failing rows, set of failing fields, policy, argument-vs-config, errorvalue, rows a '
        'generator yields before failing); exhaustive over every subset of failing rows for n <= 5 (quick) / n <= 7 (thorough), field subsets and generator prefixes fully crossed for n <= 4 x '
        'failing-field subsets x 3 policies x {argument, config default} x errorvalue in {None, "ERR"} x 9 function forms. '
        'Non-trivial: at least one failing and one non-failing row. Distinct = SHA-1 of the case.')
ASSUMPTIONS = ['the private exception type identifies the converter failure', 'config default is read when the view is constructed (anchor mechanism)']
EXC_NAMES_ = sorted(['InjectedFault'] + [b.__name__ for b in (KeyError, IndexError, ValueError, TypeError, AttributeError, ZeroDivisionError, RuntimeError, AssertionError, LookupError, ArithmeticError, UnicodeError, OSError, NotImplementedError, Exception)] + ['StopIteration'])
FORMS = ['convert-callable', 'convert-multi', 'convert-method', 'fieldmap-dict', 'convert-passrow', 'convert-where', 'convertall', 'convertnumbers', 'fieldmap', 'rowmap', 'rowmapmany']
REQUIRED = (['form:' + f for f in FORMS] + ['form:convert-stacked', 'stacked-converts-with-different-policies', 'policy-passed-by-position', 'falsy-errorvalue', 'policy:False', 'policy:True', 'policy:inline', 'via:config', 'via:arg',
            'fail-first-row', 'fail-last-row', 'fail-consecutive', 'fail-all-rows', 'exception-surfaced-at-failing-row',
            'inline-exception-delivered', 'errorvalue-delivered', 'row-dropped', 'generator-rows-kept-before-failure', 'rowmap:lazy-mapper-result', 'rows-longer-than-the-header', 'len-of-the-view-taken', 'cells-holding-exception-objects'] +
            ['exc:' + e for e in EXC_NAMES_])
EXHAUSTIVE = {'quick': True, 'thorough': True}


# the probe raises private subclasses of the exception families a converter
# realistically raises, so that an except clause inside petl that is too
# narrow or too wide (e.g. a KeyError taken for 'no converter on this field')
# cannot hide behind one exception type
def _sub(base):
    return type('Injected' + base.__name__, (base,), {})


# StopIteration is special: raised (or re-raised) inside a generator it reaches the caller as RuntimeError (PEP 479).
# The policy must still hold: errorvalue / the exception object under False / 'inline', and under True *an* exception
# that surfaces exactly when the failing row is requested.  So for this family the type of what surfaces may also be
# RuntimeError, nothing else is relaxed.
EXC_TYPES = {'InjectedFault': InjectedFault}
EXC_TYPES['StopIteration'] = type('InjectedStopIteration', (StopIteration,), {})
for _b in (KeyError, IndexError, ValueError, TypeError, AttributeError, ZeroDivisionError, RuntimeError, AssertionError,
           LookupError, ArithmeticError, UnicodeError, OSError, NotImplementedError, Exception):
    EXC_TYPES[_b.__name__] = _sub(_b)
EXC_NAMES = sorted(EXC_TYPES)


def cases(ctx):
    for c in _stacked_cases(ctx):
        yield c
    maxn = ctx.pick(5, 7)
    count = [0]
    for form in FORMS:
        cellwise = form in ('convert-callable', 'convert-multi', 'convert-passrow', 'convert-where', 'fieldmap', 'convertall', 'convertnumbers')
        for n in range(0, maxn + 1):
            for k in range(0, n + 1):
                for failrows in itertools.combinations(range(n), k):
                    fieldsets = [('a',), ('b',), ('a', 'b')] if (cellwise and failrows) else [('a',)]
                    if n > 4:
                        fieldsets = fieldsets[-1:]
                    for ff in fieldsets:
                        for policy in (False, True, 'inline'):
                            for via in ('arg', 'config'):
                                # errorvalue must be used under False and *ignored* under True / 'inline'
                                evs = (None, 'ERR') if (form not in ('rowmap', 'rowmapmany') and (policy is False or n <= 3)) else (None,)
                                if len(evs) == 2 and policy is False and failrows and n <= 3:
                                    evs = evs + (0, '', False, ())       # an error value is a value like any other, falsy ones included
                                for ev in evs:
                                    pres = (0, 1, 2) if form == 'rowmapmany' and failrows else (0,)
                                    if n > 4:
                                        pres = pres[-1:]
                                    for pre in pres:
                                        count[0] += 1
                                        excs = EXC_NAMES if (failrows and n <= 2 and via == 'arg') else [EXC_NAMES[count[0] % len(EXC_NAMES)]]
                                        for exc in excs:
                                            yield {'form': form, 'n': n, 'failrows': list(failrows), 'failfields': list(ff), 'policy': policy,
                                                   'via': via, 'errorvalue': ev, 'pre': pre, 'exc': exc}
                                            if cellwise and form != 'fieldmap' and n >= 1 and n <= 4:
                                                # rows longer than the header: the surplus cells are carried over under every policy
                                                yield {'form': form, 'n': n, 'failrows': list(failrows), 'failfields': list(ff), 'policy': policy,
                                                       'via': via, 'errorvalue': ev, 'pre': pre, 'exc': exc, 'long': True}
                                            if form in ('convert-callable', 'convert-multi', 'convert-where', 'convertall') and failrows and n <= 3:
                                                # the failing cells already hold an exception object (what an upstream stage run with
                                                # failonerror='inline' leaves behind): a cell value like any other
                                                yield {'form': form, 'n': n, 'failrows': list(failrows), 'failfields': list(ff), 'policy': policy,
                                                       'via': via, 'errorvalue': ev, 'pre': pre, 'exc': exc, 'exccells': True}
                                            if form == 'rowmap' and failrows and exc != 'StopIteration':
                                                # the mapper may return any iterable of cells; a lazy one fails while petl builds the row
                                                # (a StopIteration out of a lazy result just ends that iterable: Python's semantics, not a failure)
                                                yield {'form': form, 'n': n, 'failrows': list(failrows), 'failfields': list(ff), 'policy': policy,
                                                       'via': via, 'errorvalue': ev, 'pre': pre, 'exc': exc,
                                                       'lazy': ('generator', 'genexp', 'map')[count[0] % 3]}


def _stacked_cases(ctx):
    """a convert view directly on top of another convert view, each with its own policy (and error value): the policy of a stage
    decides what *its* failing conversions become, whatever the stage above or below was given"""
    for n in range(1, 4):
        for k in range(1, n + 1):
            for failrows in itertools.combinations(range(n), k):
                for ff in (('a',), ('b',), ('a', 'b')):
                    for p1 in (None, False, True, 'inline'):
                        for p2 in (None, False, True, 'inline'):
                            for ev1, ev2 in ((None, None), ('E1', 'E2'), ('E', 'E')):
                                yield {'form': 'convert-stacked', 'n': n, 'failrows': list(failrows), 'failfields': list(ff), 'policy': p2, 'inner': p1,
                                       'via': 'arg', 'errorvalue': ev2, 'errorvalue1': ev1, 'pre': 0, 'exc': EXC_NAMES[(n + k + len(ff)) % len(EXC_NAMES)]}


def _judge_stacked(case, ctx):
    n, p1, p2, ev1, ev2 = case['n'], case['inner'], case['policy'], case['errorvalue1'], case['errorvalue']
    failrows, failfields = set(case['failrows']), set(case['failfields'])
    ctx.op('form:convert-stacked')
    ctx.mark_nontrivial()
    if p1 != p2:
        ctx.seen('stacked-converts-with-different-policies')
    Fault = EXC_TYPES[case['exc']]
    if case['exc'] == 'StopIteration':
        Fault = EXC_TYPES['InjectedFault']

    def conv(v):
        f, i = v[0], int(v[1:])
        if i in failrows and f in failfields:
            raise Fault((i, f))
        return v.upper()
    table = [['id', 'a', 'b']] + [[i, 'a%d' % i, 'b%d' % i] for i in range(n)]
    kw1 = {} if p1 is None else {'failonerror': p1}
    kw2 = {} if p2 is None else {'failonerror': p2}
    if ev1 is not None:
        kw1['errorvalue'] = ev1
    if ev2 is not None:
        kw2['errorvalue'] = ev2
    view = petl.convert(petl.convert(table, 'a', conv, **kw1), 'b', conv, **kw2)
    got, raised = [], None
    try:
        for r in iter(view):
            got.append(tuple(r))
    except Exception as e:  # noqa: the exception is the observation
        raised = type(e).__name__
        del e
    exp, exp_raise = [('id', 'a', 'b')], None
    for i in range(n):
        cells = {}
        for f, pol, ev in (('a', p1, ev1), ('b', p2, ev2)):
            if i in failrows and f in failfields:
                if pol is True:
                    exp_raise = Fault.__name__
                    break
                cells[f] = ev if pol in (None, False) else ('<exception>', Fault.__name__)
            else:
                cells[f] = ('%s%d' % (f, i)).upper()
        if exp_raise:
            break
        exp.append((i, cells['a'], cells['b']))

    def norm(rows):
        return [tuple(('<exception>', type(c).__name__) if isinstance(c, BaseException) else c for c in r) for r in rows]
    if norm(got) != exp or raised != exp_raise:
        return {'kind': 'stacked-convert-policies-mixed-up', 'inner-policy': p1, 'outer-policy': p2, 'errorvalues': [ev1, ev2],
                'expected': exp, 'expected-raise': exp_raise, 'observed': norm(got), 'observed-raise': raised}
    return None


PETL_SIDE = ('convert-method', 'fieldmap-dict')       # the failure arises in petl's own adapter around the argument, at field a


class StaleError(Exception):
    """an exception object sitting in a cell of the input table"""


def _table(case):
    n = case['n']
    rows = []
    for i in range(n):
        a, b = 'a%d' % i, 'b%d' % i
        if case.get('exccells') and i in case['failrows']:
            if 'a' in case['failfields']:
                a = StaleError((i, 'a'))
            if 'b' in case['failfields']:
                b = StaleError((i, 'b'))
        if case['form'] == 'convert-method' and i in case['failrows']:
            a = None     # None.upper() -> AttributeError raised inside petl's methodcaller
        if case['form'] == 'fieldmap-dict' and i in case['failrows']:
            a = ['unhashable', i]     # looking a list up in fieldmap's translation dictionary -> TypeError raised inside petl (convert's dictionary form
            #                           passes unhashable values through instead, by design)
        if case['form'] == 'convertnumbers':
            # the strict number parser raises ValueError for 'x..' cells and parses the others
            a = ('x%d' if (i in case['failrows'] and 'a' in case['failfields']) else '1%d') % i
            b = ('x%d' if (i in case['failrows'] and 'b' in case['failfields']) else '2%d') % i
        rows.append([i, a, b] + (['extra%d' % i] * (1 + i % 2) if case.get('long') else []))
    return [['id', 'a', 'b']] + rows


def judge(case, ctx):
    if case['form'] == 'convert-stacked':
        return _judge_stacked(case, ctx)
    form, n, policy, via, ev, pre = case['form'], case['n'], case['policy'], case['via'], case['errorvalue'], case['pre']
    failrows, failfields = set(case['failrows']), set(case['failfields'])
    ctx.op('form:' + form)
    ctx.seen('policy:%s' % policy)
    ctx.seen('via:' + via)
    if failrows and len(failrows) < n:
        ctx.mark_nontrivial()
    if ev is not None and not ev:
        ctx.seen('falsy-errorvalue')
    if 0 in failrows:
        ctx.seen('fail-first-row')
    if n and (n - 1) in failrows:
        ctx.seen('fail-last-row')
    if any(i + 1 in failrows for i in failrows):
        ctx.seen('fail-consecutive')
    if n and len(failrows) == n:
        ctx.seen('fail-all-rows')
    table = _table(case)
    if case.get('exccells'):
        ctx.seen('cells-holding-exception-objects')
    if case.get('long'):
        ctx.seen('rows-longer-than-the-header')
    calls = []
    Fault = EXC_TYPES[case.get('exc', 'InjectedFault')]
    ctx.seen('exc:' + case.get('exc', 'InjectedFault'))

    def fails(i, f):
        return i in failrows and f in failfields

    def conv(v, *rest):
        if isinstance(v, StaleError):
            i, f = v.args[0]
        else:
            f, i = v[0], int(v[1:])
        calls.append((i, f))
        if fails(i, f):
            raise Fault((i, f))
        return v.upper()

    def conv_row(v, row):
        f, i = v[0], row['id']
        calls.append((i, f))
        if fails(i, f):
            raise Fault((i, f))
        return v.upper()

    def conv_any(v):
        if isinstance(v, int):
            return v
        return conv(v)

    where = (lambda r: r['id'] % 2 == 0) if form == 'convert-where' else None
    converted = lambda i: where is None or i % 2 == 0  # noqa: E731

    # ---- build the view, with the policy as argument or as config default at construction time
    kw = {}
    if via == 'arg':
        kw['failonerror'] = util.fresh(policy)      # 'inline' as a run-time string (read from a config file, say): equal, not identical
        pcfg.failonerror = {False: True, True: False, 'inline': False}[policy]    # must be ignored
    else:
        pcfg.failonerror = util.fresh(policy)
    if ev is not None:
        kw['errorvalue'] = ev
    exc_type = Fault
    # the documented signatures put the policy (and, for fieldmap, the error value after it) right behind the required arguments:
    # a third of the argument-form cases pass them by position
    pos = ()
    if via == 'arg' and form in ('fieldmap', 'fieldmap-dict', 'rowmap', 'rowmapmany') and int(util.fp(case)[4:6], 16) % 3 == 0:
        pos = (kw.pop('failonerror'),)
        if 'errorvalue' in kw and form.startswith('fieldmap'):
            pos = pos + (kw.pop('errorvalue'),)
        ctx.seen('policy-passed-by-position')
    if form == 'convert-callable':
        view = petl.convert(table, ('a', 'b'), conv, **kw)
    elif form == 'convert-multi':
        view = petl.convert(table, {'a': conv, 'b': conv, 'id': {0: 0}}, **kw)
    elif form == 'convert-method':
        view = petl.convert(table, 'a', 'upper', **kw)
        exc_type = AttributeError
    elif form == 'fieldmap-dict':
        from collections import OrderedDict
        m = OrderedDict()
        m['id'] = 'id'
        m['a'] = ('a', {'a%d' % i: 'A%d' % i for i in range(n)})
        m['b'] = 'b'
        view = petl.fieldmap(table, m, *pos, **kw)
        exc_type = TypeError
    elif form == 'convert-passrow':
        view = petl.convert(table, ('a', 'b'), conv_row, pass_row=True, **kw)
    elif form == 'convert-where':
        view = petl.convert(table, ('a', 'b'), conv, where=where, **kw)
    elif form == 'convertall':
        view = petl.convertall(table, conv_any, **kw)
    elif form == 'convertnumbers':
        view = petl.convertnumbers(table, strict=True, **kw)
        exc_type = ValueError
    elif form == 'fieldmap':
        from collections import OrderedDict
        m = OrderedDict()
        m['id'] = 'id'
        m['A'] = ('a', conv)
        m['B'] = lambda rec: conv(rec['b'])
        view = petl.fieldmap(table, m, *pos, **kw)
    elif form == 'rowmap':
        def mapper(row):
            calls.append((row['id'], 'row'))
            if row['id'] in failrows:
                raise Fault((row['id'], 'row'))
            return [row['id'], row['a'].upper(), row['b'].upper()]
        lazy = case.get('lazy')
        if lazy:
            ctx.seen('rowmap:lazy-mapper-result')

            def cell(row, j):
                if j == 1 and row['id'] in failrows:
                    raise Fault((row['id'], 'row'))
                return [row['id'], row['a'], row['b']][j] if j == 0 else [row['id'], row['a'], row['b']][j].upper()
            if lazy == 'generator':
                def mapper(row):        # noqa: F811
                    calls.append((row['id'], 'row'))
                    for j in range(3):
                        yield cell(row, j)
            elif lazy == 'genexp':
                def mapper(row):        # noqa: F811
                    calls.append((row['id'], 'row'))
                    return (cell(row, j) for j in range(3))
            else:
                def mapper(row):        # noqa: F811
                    calls.append((row['id'], 'row'))
                    return map(lambda j: cell(row, j), range(3))
        view = petl.rowmap(table, mapper, ['id', 'A', 'B'], *pos, **kw)
    elif form == 'rowmapmany':
        def gen(row):
            calls.append((row['id'], 'row'))
            if row['id'] in failrows:
                for j in range(pre):
                    yield [row['id'], 'pre%d' % j]
                raise Fault((row['id'], 'row'))
            yield [row['id'], row['a'].upper()]
            yield [row['id'], row['b'].upper()]
        view = petl.rowmapmany(table, gen, ['id', 'v'], *pos, **kw)
    # the default must have been taken at construction: change the config now
    if via == 'config':
        pcfg.failonerror = {False: True, True: False, 'inline': False}[policy]

    # ---- reference
    EXC = object()   # placeholder for "the exception object of (i, f)"
    exp_rows = []
    exp_raise_after = None     # number of data rows delivered before the exception surfaces
    exp_raise_key = None
    cell_forms = ('fieldmap-dict', 'convert-callable', 'convert-multi', 'convert-method', 'convert-passrow', 'convert-where', 'convertall', 'convertnumbers', 'fieldmap')
    if form in cell_forms:
        hdr = ('id', 'A', 'B') if form == 'fieldmap' else ('id', 'a', 'b')
        ffields = ('a',) if form in PETL_SIDE else ('a', 'b')
        for i in range(n):
            src = table[1 + i]
            if not converted(i):
                exp_rows.append(tuple(src))
                continue
            row = [i]
            stop = False
            for f, v in (('a', src[1]), ('b', src[2])):
                if f not in ffields:
                    row.append(v)
                    continue
                failing = fails(i, f) if form not in PETL_SIDE else (i in failrows)
                if failing:
                    if policy == 'inline':
                        row.append((EXC, (i, f)))
                    elif policy:
                        exp_raise_after, exp_raise_key, stop = len(exp_rows), (i, f), True
                        break
                    else:
                        row.append(ev)
                else:
                    row.append(int(v) if form == 'convertnumbers' else v.upper())
            if stop:
                break
            exp_rows.append(tuple(row) + tuple(src[3:]))
    elif form == 'rowmap':
        hdr = ('id', 'A', 'B')
        for i in range(n):
            if i in failrows:
                if policy == 'inline':
                    exp_rows.append(((EXC, (i, 'row')),))
                elif policy:
                    exp_raise_after, exp_raise_key = len(exp_rows), (i, 'row')
                    break
            else:
                exp_rows.append((i, 'A%d' % i, 'B%d' % i))
    else:
        hdr = ('id', 'v')
        for i in range(n):
            if i in failrows:
                for j in range(pre):
                    exp_rows.append((i, 'pre%d' % j))
                if policy == 'inline':
                    exp_rows.append(((EXC, (i, 'row')),))
                elif policy:
                    exp_raise_after, exp_raise_key = len(exp_rows), (i, 'row')
                    break
            else:
                exp_rows.append((i, 'A%d' % i))
                exp_rows.append((i, 'B%d' % i))

    # ---- observe: one next() at a time
    got = []
    raised = None
    it = iter(view)
    try:
        h = next(it)
    except Exception as e:  # noqa
        return {'kind': 'exception-at-header', 'detail': '%s: %s' % (type(e).__name__, e)}
    while True:
        try:
            r = next(it)
        except StopIteration:
            break
        except Exception as e:  # noqa: this exception is the observation
            raised = e
            break
        got.append(tuple(r))
        if len(got) > len(exp_rows) + 5:
            break
    out = []
    if tuple(h) != hdr:
        out.append({'kind': 'header-differs', 'expected': hdr, 'observed': tuple(h)})

    stopiter = case.get('exc') == 'StopIteration'
    # a user generator (rowmapmany) that raises StopIteration is itself turned into RuntimeError before petl sees it
    ok_types = (exc_type, RuntimeError) if stopiter else (exc_type,)

    def cell_ok(g, e):
        if isinstance(e, tuple) and len(e) == 2 and e[0] is EXC:
            if not isinstance(g, ok_types):
                return False
            if exc_type is Fault and isinstance(g, Fault) and g.args != (e[1],):
                return False
            ctx.seen('inline-exception-delivered')
            return True
        if isinstance(e, StaleError):
            return isinstance(g, StaleError) and g.args == e.args      # an untouched input cell that holds an exception object
        if isinstance(g, BaseException):
            return False
        return util.canon(g) == util.canon(e)

    def rows_ok(grows, erows):
        if len(grows) != len(erows):
            return False
        for g, e in zip(grows, erows):
            if len(g) != len(e) or not all(cell_ok(x, y) for x, y in zip(g, e)):
                return False
        return True

    def show(rows):
        return [tuple(('<exc %r>' % (c[1],)) if (isinstance(c, tuple) and len(c) == 2 and c[0] is EXC) else c for c in r) for r in rows]
    if exp_raise_after is None:
        if raised is not None:
            out.append({'kind': 'exception-escaped-under-policy', 'policy': policy, 'detail': '%s: %s' % (type(raised).__name__, raised),
                        'delivered': got, 'expected': show(exp_rows)})
        elif not rows_ok(got, exp_rows):
            out.append({'kind': 'rows-differ-under-policy', 'policy': policy, 'expected': show(exp_rows), 'observed': got})
        else:
            if policy is False and failrows:
                if form in ('rowmap', 'rowmapmany'):
                    ctx.seen('row-dropped')
                    if form == 'rowmapmany' and pre:
                        ctx.seen('generator-rows-kept-before-failure')
                elif any(converted(i) for i in failrows):
                    ctx.seen('errorvalue-delivered')
    else:
        if raised is None:
            out.append({'kind': 'no-exception-under-failonerror-True', 'expected-after-rows': exp_raise_after, 'observed': got})
        else:
            if not rows_ok(got, exp_rows[:exp_raise_after]) or len(got) != exp_raise_after:
                out.append({'kind': 'exception-surfaced-at-wrong-row', 'expected-delivered-before': show(exp_rows[:exp_raise_after]),
                            'observed-delivered-before': got, 'exception': repr(raised)})
            if not isinstance(raised, ok_types) or (exc_type is Fault and isinstance(raised, Fault) and raised.args != (exp_raise_key,)):
                out.append({'kind': 'wrong-exception-raised', 'expected': repr(exp_raise_key), 'observed': repr(raised)})
            if not out:
                ctx.seen('exception-surfaced-at-failing-row')
    # converter called once per converted cell, in order (only when nothing raised out)
    if form in ('convert-callable', 'convert-multi', 'convert-passrow', 'convert-where', 'fieldmap') and exp_raise_after is None and not out:
        want = [(i, f) for i in range(n) if converted(i) for f in ('a', 'b')]
        if calls != want:
            out.append({'kind': 'converter-not-called-once-per-cell-in-order', 'expected': want, 'observed': calls})
    # ... and a row mapper / row generator once per row: a failure is an event (a flaky lookup, the n-th call), it is not retried
    if form in ('rowmap', 'rowmapmany') and exp_raise_after is None and not out:
        want = [(i, 'row') for i in range(n)]
        if calls != want:
            out.append({'kind': 'mapper-not-called-once-per-row-in-order', 'expected': want, 'observed': calls})
    # len(view) is one more pass over the view, under the same policy: the number of rows the pass delivers, or the exception
    if not out and not stopiter:
        try:
            ln = len(view)
        except Exception as e:  # noqa: the exception is the observation
            ln = e
        ctx.seen('len-of-the-view-taken')
        if exp_raise_after is None:
            if isinstance(ln, BaseException) or ln != len(exp_rows) + 1:
                out.append({'kind': 'len-of-view-differs-from-rows-delivered', 'policy': policy, 'expected': len(exp_rows) + 1, 'observed': repr(ln)})
        elif not isinstance(ln, ok_types):
            out.append({'kind': 'len-of-view-did-not-surface-the-exception', 'policy': policy, 'observed': repr(ln)})
        ln = None
    del raised
    return out
