"""C14  Reshape operators are mutually inverse and cell-exact.

Oracles: the round-trip identities of the property (recast after melt,
transpose twice, unflatten after flatten, fromdicts(dicts), fromcolumns(columns))
and direct dictionary / cell-by-cell references for melt, pivot, unpack,
unpackdict, capture, split and splitdown.
"""
from __future__ import annotations

import copy
import re

import petl

from petlmon import gen, util

ID = 'C14'
LEVEL = 'exploration'
RULE = ('cases = (identity or operator, table, arguments); seeded random rectangular tables of 0-6 rows x 1-5 distinct text fields with unique '
        '(None / mixed-type / compound) keys under the ordering equivalence; every choice of key vs variable fields (key fields not '
        'necessarily leading), explicit variables= in any order, all periods n for unflatten; pivot with missing (r, c) pairs; unpack / '
        'unpackdict / capture / split / splitdown with include_original, missing / fill, maxsplit, field by name or index. Non-trivial: '
        '>= 2 data rows and >= 2 fields. Distinct = SHA-1 of the case.')
ASSUMPTIONS = ['domain as stated by the property: rectangular tables, unique keys, distinct text field names, variable names different from the '
               'variable / value field names; fromdicts(dicts(t)) needs >= 1 data row']
KINDS = ['melt-recast', 'recast-direct', 'melt', 'transpose', 'flatten', 'unflatten-period', 'pivot', 'unpack', 'unpackdict', 'capture', 'split', 'splitdown',
         'dicts-roundtrip', 'columns-roundtrip']
REQUIRED = (['views-read-twice', 'views-re-read-after-an-in-place-edit-of-the-source', 'columns-with-filler', 'regex-flags', 'unpackdict:keys-from-a-sample-shorter-than-the-table'] + ['kind:' + k for k in KINDS] + ['none-key', 'compound-key', 'key-not-leading', 'one-column', 'period=1', 'period=width',
            'pivot-missing-pair', 'field-by-index', 'include-original', 'explicit-variables-permuted', 'fromdicts-sample<nrows', 'fromdicts-generator:lagging-iterator', 'melt:key-inferred-from-variables', 'recast:sample-shorter-than-the-molten-table', 'default-sample-size:first-appearance-inside-the-sample', 'default-sample-size:first-appearance-beyond-the-sample'])
VALS = [None, 0, 1, 2.5, 'a', 'b', '', b'x', (1, 2), gen.D(2020, 1, 1), True]
KEYS = [None, 1, 2, 3, 'a', 'b', b'a', (1, 2), 2.5, gen.D(2020, 1, 1), 0, '', ()]
NAMES = ['alpha', 'beta', 'gamma', 'delta', 'eps', 'al', 'eta']      # 'al' / 'eta' are substrings of other names on purpose


def cases(ctx):
    rng = ctx.rng('cases')
    # the documented default sample sizes (1000 rows / records): a variable, key or field that first appears just below, at and
    # just above the default is in the header exactly when it lies within the sample
    for op in ('recast', 'unpackdict', 'fromdicts-list', 'fromdicts-generator'):
        for p in (998, 999, 1000, 1001):
            yield {'kind': 'default-sample', 'op': op, 'first_at': p}
    for i in range(ctx.pick(65000, 900000)):
        kind = KINDS[i % len(KINDS)]
        nf = rng.randint(1, 5)
        names = rng.sample(NAMES, nf)
        n = rng.choice([0, 1, 2, 3, 4, 5, 6])
        c = {'kind': kind}
        if kind in ('melt-recast', 'melt'):
            nk = rng.randint(1, max(1, min(2, nf - 1))) if nf > 1 else 1
            kidx = sorted(rng.sample(range(nf), nk))
            # unique keys under the model equivalence
            keys = []
            pool = list(KEYS)
            attempts = 0
            while len(keys) < n and attempts < 200:
                attempts += 1
                k = tuple(rng.choice(pool) for _ in kidx)
                if not any(util.model_cmp(k, x) == 0 for x in keys):
                    keys.append(k)
            rows = []
            for k in keys:
                r = [rng.choice(VALS) for _ in range(nf)]
                for j, ki in enumerate(kidx):
                    r[ki] = k[j]
                rows.append(r)
            c['table'] = [names] + rows
            c['key'] = [names[j] for j in kidx]
            if len(c['key']) == 1 and rng.random() < 0.6:
                c['key'] = c['key'][0]
            elif rng.random() < 0.35:
                c['key'] = tuple(c['key'])        # a tuple of names (one-element tuples included) as well as a list
            vars_ = [names[j] for j in range(nf) if j not in kidx]
            c['variables'] = None
            if vars_ and rng.random() < 0.4:
                vs = rng.sample(vars_, rng.randint(1, len(vars_)))
                c['variables'] = vs
            c['vf'] = rng.choice([('variable', 'value'), ('var', 'val')])
            if c['variables'] is not None and rng.random() < 0.4:
                # the key left to be inferred (every field that is not a variable), the variables as a list or tuple of names or one bare name (indices are echoed as they are in the variable column: not used)
                c['keyform'] = 'inferred'
                c['varform'] = rng.choice(['names', 'scalar' if len(c['variables']) == 1 else 'names', 'scalar' if len(c['variables']) == 1 else 'tuple', 'tuple'])
            c['samplesize'] = rng.choice([None, None, 'nvars', 'nvars+1', 'all', 'all-1'])
        elif kind == 'recast-direct':
            # a long table with repeated and missing (id, variable) pairs, optional reducers / missing / second key field
            ids = rng.sample([None, 1, 2, 'a', (1, 2), 2.5], rng.randint(1, 4))
            vs = rng.sample(['height', 'weight', 'age', 'zip'], rng.randint(1, 3))
            rows = [[rng.choice(ids), rng.choice(['x', 'y']), rng.choice(vs), rng.choice([1, 2, 3, 5, None])] for _ in range(n)]
            c['table'] = [['id', 'grp', 'variable', 'value']] + rows
            c['key'] = rng.choice(['id', ['id', 'grp'], None])
            c['reducers'] = rng.choice([None, 'sum-height', 'len-all'])
            c['missing'] = rng.choice([None, 'M', 0])
        elif kind in ('transpose', 'flatten', 'dicts-roundtrip', 'columns-roundtrip'):
            c['table'] = [names] + [[rng.choice(VALS) for _ in range(nf)] for _ in range(n)]
            if kind == 'columns-roundtrip' and rng.random() < 0.5:
                # a filler that is also a field name or a cell value; some rows stop short and are padded with it
                c['missing'] = rng.choice([names[rng.randrange(nf)], 'M', rng.choice(VALS), 0])
                c['table'] = [names] + [r[:rng.randint(0, nf)] if rng.random() < 0.4 else r for r in c['table'][1:]]
        elif kind == 'unflatten-period':
            c['values'] = [rng.choice(VALS) for _ in range(rng.randint(0, 9))]
            c['period'] = rng.randint(1, 4)
            c['missing'] = rng.choice([None, 'M'])
        elif kind == 'pivot':
            f1 = [rng.choice([None, 1, 2, 'a', (1, 2), 2.5]) for _ in range(n)]
            f2 = [rng.choice(['x', 'y', 'z', '']) for _ in range(n)]
            c['table'] = [['r', 'c', 'v', 'id']] + [[a, b, rng.choice([1, 2, 3, 5]), 'i%d' % j] for j, (a, b) in enumerate(zip(f1, f2))]
            c['agg'] = rng.choice(['sum', 'list', 'len'])
            c['missing'] = rng.choice([None, 0, 'M'])
        else:
            fi = rng.randrange(nf)
            rows = []
            for _ in range(n):
                r = [rng.choice(VALS) for _ in range(nf)]
                if kind == 'unpack':
                    r[fi] = rng.choice([(1, 2), [3], (), ('a', 'b', 'c'), [None, 1], 'xy'])
                elif kind == 'unpackdict':
                    r[fi] = rng.choice([{'p': 1}, {'q': 2, 'p': None}, {}, {'r': [1]}, {'p': 'x', 'q': 'y', 'r': 'z'}])
                else:
                    r[fi] = rng.choice(['a1', 'b22', 'c-3', 'ab', '', 'x y z', '1,2,3', 'a,b'])
                rows.append(r)
            c['table'] = [names] + rows
            c['field'] = names[fi] if rng.random() < 0.7 else fi
            c['include_original'] = rng.random() < 0.3
            if kind == 'unpack':
                c['newfields'] = rng.choice([['u1', 'u2'], ['u1'], 3, None, ['u1', 'u2', 'u3', 'u4']])
                c['missing'] = rng.choice([None, 'M'])
            elif kind == 'unpackdict':
                c['keys'] = rng.choice([None, ['p'], ['q', 'p'], ['zz', 'r']])
                c['missing'] = rng.choice([None, 'M'])
                c['samplesize'] = rng.choice([None, None, 1, 2]) if c['keys'] is None else None
            elif kind == 'capture':
                c['pattern'] = rng.choice([r'(\w)(\d*)', r'^(.)', r'(a)|(b)', r'([a-z]+)\W?(\d+)?', r'(A)|(B)', r'([A-Z]+)\W?(\d+)?',
                                           r'^([a-z]*)(\d*)$', r'(x*)'])      # the last two also match the empty string
                c['newfields'] = rng.choice([['g1', 'g2'], ['g1']])
                c['fill'] = rng.choice([['F1', 'F2'], ['F']])
                c['flags'] = rng.choice([0, 0, int(re.I)])
            elif kind == 'split':
                c['pattern'] = rng.choice([',', r'\s', '-', 'b', 'B', 'X|A'])
                c['newfields'] = rng.choice([['s1', 's2'], ['s1', 's2', 's3'], None])
                c['maxsplit'] = rng.choice([0, 0, 1])
                c['flags'] = rng.choice([0, 0, int(re.I)])
            else:
                c['pattern'] = rng.choice([',', r'\s', '-', 'b', 'B', 'X|A'])
                c['maxsplit'] = rng.choice([0, 0, 1])
                c['flags'] = rng.choice([0, 0, int(re.I)])
        yield c


# ---------------------------------------------------------------------------

def _diff(got, exp, kind, extra=None):
    if isinstance(got, util.Raised):
        d = {'kind': 'exception', 'op': kind, 'detail': got.text, 'where': got.where}
    elif util.crows(got) != util.crows(exp):
        d = {'kind': 'result-differs', 'op': kind, 'expected': exp, 'observed': got}
    else:
        return None
    if extra:
        d.update(extra)
    return d


WRAP = [lambda t: t]     # C03 re-runs these forms with mutation-guarded inputs by installing probes.guard here


def judge(case, ctx):
    e0 = util.EDITED[0]
    try:
        return _judge(case, ctx)
    finally:
        if util.EDITED[0] != e0:
            ctx.seen('views-re-read-after-an-in-place-edit-of-the-source', util.EDITED[0] - e0)


def _judge_default_sample(case, ctx):
    op, p = case['op'], case['first_at']
    n = 1004
    ctx.mark_nontrivial()
    inside = p < 1000          # data rows / records 0..999 make up the default sample
    if op == 'recast':
        molten = [['id', 'variable', 'value']] + [[i, 'late' if i == p else ('a' if i % 2 else 'b'), i] for i in range(n)]
        got = util.attempt_rows(lambda: petl.recast(molten))
        what = 'recast() default samplesize'
        want_cell = lambda r, h: r[h.index('late')] == p if r[0] == p else r[h.index('late')] is None      # noqa: E731
    elif op == 'unpackdict':
        t = [['id', 'd']] + [[i, dict({'a': i}, **({'late': i} if i >= p else {}))] for i in range(n)]
        got = util.attempt_rows(lambda: petl.unpackdict(t, 'd'))
        what = 'unpackdict() default samplesize'
        want_cell = lambda r, h: r[h.index('late')] == (r[0] if r[0] >= p else None)      # noqa: E731
    else:
        recs = [dict({'id': i, 'a': i}, **({'late': i} if i >= p else {})) for i in range(n)]
        src = recs if op == 'fromdicts-list' else (x for x in recs)
        got = util.attempt_rows(lambda: petl.fromdicts(src))
        what = 'fromdicts() default sample'
        want_cell = lambda r, h: r[h.index('late')] == (r[h.index('id')] if r[h.index('id')] >= p else None)      # noqa: E731
    if isinstance(got, util.Raised):
        return {'kind': 'exception', 'op': what, 'detail': got.text, 'where': got.where}
    h = list(got[0])
    ctx.seen('default-sample-size:first-appearance-%s-the-sample' % ('inside' if inside else 'beyond'))
    if ('late' in h) != inside:
        return {'kind': 'result-differs', 'op': what, 'first-appearance-at-row': p, 'expected-in-header': inside, 'observed-header': h}
    if len(got) - 1 != n:
        return {'kind': 'result-differs', 'op': what, 'expected-rows': n, 'observed-rows': len(got) - 1}
    if inside and not all(want_cell(r, h) for r in got[1:]):
        bad = [r for r in got[1:] if not want_cell(r, h)][:3]
        return {'kind': 'result-differs', 'op': what, 'first-appearance-at-row': p, 'rows-with-a-wrong-cell': bad}
    return None


def _judge(case, ctx):
    kind = case['kind']
    if kind == 'default-sample':
        ctx.op('kind:default-sample')
        return _judge_default_sample(case, ctx)
    ctx.op('kind:' + kind)
    out = []
    if 'table' in case:
        table = WRAP[0](copy.deepcopy(case['table']))
        hdr = table[0]
        rows = [tuple(r) for r in table[1:]]
        if len(rows) >= 2 and len(hdr) >= 2:
            ctx.mark_nontrivial()
        if len(hdr) == 1:
            ctx.seen('one-column')

    if kind in ('melt', 'melt-recast'):
        key = case['key']
        klist = list(key) if isinstance(key, (list, tuple)) else [key]
        inferred = case.get('keyform') == 'inferred' and case['variables'] is not None
        if inferred:
            klist = [h for h in hdr if h not in case['variables']]
            key = None
            ctx.seen('melt:key-inferred-from-variables')
        kidx = [hdr.index(k) for k in klist]
        vf, valf = case['vf']
        variables = case['variables'] if case['variables'] is not None else [h for h in hdr if h not in klist]
        if case['variables'] is not None and [hdr.index(v) for v in variables] != sorted(hdr.index(v) for v in variables):
            ctx.seen('explicit-variables-permuted')
        if len(kidx) > 1:
            ctx.seen('compound-key')
        if kidx != list(range(len(kidx))):
            ctx.seen('key-not-leading')
        if any(all(r[i] is None for i in kidx) for r in rows):
            ctx.seen('none-key')
        kw = {'variablefield': vf, 'valuefield': valf}
        if case['variables'] is not None:
            kw['variables'] = case['variables']
            if inferred:
                vform = case.get('varform', 'names')
                kw['variables'] = {'names': list(variables), 'tuple': tuple(variables), 'indices': [hdr.index(v) for v in variables],
                                   'scalar': variables[0]}[vform]
        exp_melt = [tuple(hdr[i] for i in kidx) + (vf, valf)]
        for r in rows:
            for v in variables:
                exp_melt.append(tuple(r[i] for i in kidx) + (v, r[hdr.index(v)]))
        melted = util.attempt_rows_twice(lambda: petl.melt(table, key, **kw), live=table)
        d = _diff(melted, exp_melt, 'melt')
        if d:
            return d
        if len(melted) - 1 != len(rows) * len(variables):
            return {'kind': 'melt-row-count', 'expected': len(rows) * len(variables), 'observed': len(melted) - 1}
        if kind == 'melt':
            return None
        if not variables:
            return None
        rkw = {}
        ss = case.get('samplesize')
        if ss is not None and rows:
            # the variables are discovered from the first `samplesize` molten rows: melt emits all variables of the first source row
            # first, so any sample of at least that many rows finds them all, and the whole table must still come out
            total = len(rows) * len(variables)
            rkw['samplesize'] = {'nvars': len(variables), 'nvars+1': len(variables) + 1, 'all': total, 'all-1': max(len(variables), total - 1)}[ss]
            if rkw['samplesize'] < total:
                ctx.seen('recast:sample-shorter-than-the-molten-table')
        rkey = key if key is not None else (klist if len(klist) != 1 else klist[0])
        back = util.attempt_rows_twice(lambda: petl.recast(petl.melt(copy.deepcopy(case['table']), key, **kw), key=rkey, variablefield=vf, valuefield=valf, **rkw))
        svars = sorted(variables)
        exp = [tuple(klist) + tuple(svars)]
        srows = sorted(rows, key=lambda r: util.model_key(tuple(r[i] for i in kidx)))
        if rows:
            for r in srows:
                exp.append(tuple(r[i] for i in kidx) + tuple(r[hdr.index(v)] for v in svars))
        else:
            exp = [tuple(klist)]
        return _diff(back, exp, 'recast(melt)')

    if kind == 'recast-direct':
        key, missing = case['key'], case['missing']
        if key is None:
            t2 = [[r[0], r[2], r[3]] for r in table]          # without the second key field: keys are inferred
            hdr2, rows2 = t2[0], [tuple(r) for r in t2[1:]]
            klist = ['id']
        else:
            t2, hdr2, rows2 = table, hdr, rows
            klist = key if isinstance(key, list) else [key]
            if klist == ['id']:
                t2 = [[r[0], r[2], r[3]] for r in table]
                hdr2, rows2 = t2[0], [tuple(r) for r in t2[1:]]
        kidx = [hdr2.index(k) for k in klist]
        vi, xi = hdr2.index('variable'), hdr2.index('value')
        variables = sorted({r[vi] for r in rows2})
        red = {}
        if case['reducers'] == 'sum-height':
            red = {'height': lambda vals: sum(v or 0 for v in vals)}
        elif case['reducers'] == 'len-all':
            red = {v: len for v in variables}
        groups = []
        for r in rows2:
            k = tuple(r[i] for i in kidx)
            for g in groups:
                if util.model_cmp(g[0], k) == 0:
                    g[1].append(r)
                    break
            else:
                groups.append((k, [r]))
        groups.sort(key=lambda g: util.model_key(g[0]))
        exp = [tuple(klist) + tuple(variables)]
        for k, grs in groups:
            o = list(tuple(grs[0][i] for i in kidx))
            for v in variables:
                vals = [r[xi] for r in grs if r[vi] == v]
                if not vals:
                    o.append(missing)
                elif len(vals) == 1:
                    o.append(vals[0])
                else:
                    o.append(red[v](vals) if v in red else list(vals))
            exp.append(tuple(o))
        if not rows2:
            exp = [tuple(klist)]
        kw = {}
        if key is not None:
            kw['key'] = key
        if red:
            kw['reducers'] = red
        if missing is not None:
            kw['missing'] = missing
        got = util.attempt_rows_twice(lambda: petl.recast(t2, **kw))
        return _diff(got, exp, 'recast')

    if kind == 'transpose':
        back = util.attempt_rows_twice(lambda: petl.transpose(petl.transpose(table)), live=table)
        return _diff(back, [tuple(hdr)] + rows, 'transpose(transpose)')

    if kind == 'flatten':
        w = len(hdr)
        flat = util.attempt(lambda: list(iter(petl.flatten(table))))
        if isinstance(flat, util.Raised):
            return {'kind': 'exception', 'op': 'flatten', 'detail': flat.text, 'where': flat.where}
        if util.crow(flat) != util.crow([c for r in rows for c in r]):
            return {'kind': 'result-differs', 'op': 'flatten', 'expected': [c for r in rows for c in r], 'observed': flat}
        back = util.attempt_rows_twice(lambda: petl.unflatten(petl.flatten(copy.deepcopy(case['table'])), w))
        ctx.seen('period=width')
        if isinstance(back, util.Raised):
            return {'kind': 'exception', 'op': 'unflatten(flatten)', 'detail': back.text, 'where': back.where}
        if util.crows(back[1:]) != util.crows(rows):
            return {'kind': 'result-differs', 'op': 'unflatten(flatten)', 'expected': rows, 'observed': back[1:]}
        if tuple(back[0]) != tuple('f%d' % i for i in range(w)):
            return {'kind': 'result-differs', 'op': 'unflatten header', 'observed': back[0]}
        return None

    if kind == 'unflatten-period':
        vals, p, missing = case['values'], case['period'], case['missing']
        if p == 1:
            ctx.seen('period=1')
        if len(vals) >= 2 * p:
            ctx.mark_nontrivial()
        exp = [tuple('f%d' % i for i in range(p))]
        for i in range(0, len(vals), p):
            chunk = vals[i:i + p]
            exp.append(tuple(chunk) + (missing,) * (p - len(chunk)))
        kw = {'missing': missing} if missing is not None else {}
        got = util.attempt_rows_twice(lambda: petl.unflatten(list(vals), p, **kw))
        d = _diff(got, exp, 'unflatten')
        if d:
            return d
        t2 = [['v', 'o']] + [[v, 0] for v in vals]
        got = util.attempt_rows_twice(lambda: petl.unflatten(t2, 'v', p, **kw))
        return _diff(got, exp, 'unflatten(table, field, period)')

    if kind == 'pivot':
        agg = {'sum': sum, 'list': list, 'len': len}[case['agg']]
        missing = case['missing']
        f2vals = sorted({r[1] for r in rows})
        groups = []
        for r in rows:
            for g in groups:
                if g[0] == r[0]:
                    g[1].append(r)
                    break
            else:
                groups.append((r[0], [r]))
        groups.sort(key=lambda g: util.model_key(g[0]))
        exp = [('r',) + tuple(f2vals)]
        for k, grs in groups:
            o = [k]
            for c in f2vals:
                cell = [r[2] for r in grs if r[1] == c]
                if cell:
                    o.append(agg(cell))
                else:
                    o.append(missing)
                    ctx.seen('pivot-missing-pair')
            exp.append(tuple(o))
        kw = {'missing': missing} if missing is not None else {}
        got = util.attempt_rows_twice(lambda: petl.pivot(table, 'r', 'c', 'v', agg, **kw))
        return _diff(got, exp, 'pivot')

    if kind in ('unpack', 'unpackdict', 'capture', 'split', 'splitdown'):
        field = case['field']
        fi = field if isinstance(field, int) else hdr.index(field)
        if isinstance(field, int):
            ctx.seen('field-by-index')
        inc = case['include_original']
        if inc:
            ctx.seen('include-original')
        base_hdr = list(hdr) if inc else [h for i, h in enumerate(hdr) if i != fi]

        def base(r):
            return list(r) if inc else [v for i, v in enumerate(r) if i != fi]
        if kind == 'unpack':
            nf_, missing = case['newfields'], case['missing']
            if isinstance(nf_, int):
                names = ['%s%d' % (hdr[fi], i + 1) for i in range(nf_)]
            else:
                names = list(nf_ or [])
            exp = [tuple(base_hdr + names)]
            for r in rows:
                v = list(r[fi])
                exp.append(tuple(base(r) + (v[:len(names)] + [missing] * (len(names) - len(v)))))
            kw = {'include_original': inc}
            if missing is not None:
                kw['missing'] = missing
            got = util.attempt_rows_twice(lambda: petl.unpack(table, field, nf_, **kw), live=table)
            return _diff(got, exp, 'unpack', {'field': field})
        if kind == 'unpackdict':
            if isinstance(field, int):
                field = hdr[fi]      # documented for a field name
            keys, missing = case['keys'], case['missing']
            ss = case.get('samplesize')
            ks = list(keys) if keys else sorted({k for r in (rows if ss is None else rows[:ss]) for k in r[fi]})
            if ss is not None and len(rows) > ss:
                ctx.seen('unpackdict:keys-from-a-sample-shorter-than-the-table')
            exp = [tuple(base_hdr + ks)]
            for r in rows:
                exp.append(tuple(base(r) + [r[fi].get(k, missing) for k in ks]))
            kw = {'includeoriginal': inc}
            if keys:
                kw['keys'] = keys
            if missing is not None:
                kw['missing'] = missing
            if ss is not None:
                kw['samplesize'] = ss
            got = util.attempt_rows_twice(lambda: petl.unpackdict(table, field, **kw), live=table)
            return _diff(got, exp, 'unpackdict')
        if kind == 'capture':
            fl = case.get('flags', 0)
            fkw = {'flags': fl} if fl else {}
            if fl:
                ctx.seen('regex-flags')
            prog = re.compile(case['pattern'], fl)
            ng = prog.groups
            names = (case['newfields'] * 2)[:ng] if len(case['newfields']) < ng else case['newfields'][:ng]
            names = ['g%d' % (i + 1) for i in range(ng)]
            fill = (case['fill'] * 3)[:ng]
            exp = [tuple(base_hdr + names)]
            for r in rows:
                m = prog.search(r[fi])
                exp.append(tuple(base(r) + (list(m.groups()) if m else list(fill))))
            got = util.attempt_rows_twice(lambda: petl.capture(table, field, case['pattern'], names, include_original=inc, fill=fill, **fkw), live=table)
            return _diff(got, exp, 'capture', {'field': field, 'include_original': inc})
        fl = case.get('flags', 0)
        fkw = {'flags': fl} if fl else {}
        if kind == 'split':
            prog = re.compile(case['pattern'], fl)
            names = list(case['newfields'] or [])
            exp = [tuple(base_hdr + names)]
            for r in rows:
                exp.append(tuple(base(r) + prog.split(r[fi], case['maxsplit'])))
            got = util.attempt_rows_twice(lambda: petl.split(table, field, case['pattern'], case['newfields'], include_original=inc, maxsplit=case['maxsplit'], **fkw), live=table)
            return _diff(got, exp, 'split', {'field': field, 'include_original': inc})
        prog = re.compile(case['pattern'], fl)
        exp = [tuple(hdr)]
        for r in rows:
            for piece in prog.split(r[fi], case['maxsplit']):
                exp.append(tuple(piece if i == fi else r[i] for i in range(len(hdr))))
        got = util.attempt_rows_twice(lambda: petl.splitdown(table, field, case['pattern'], maxsplit=case['maxsplit'], **fkw), live=table)
        return _diff(got, exp, 'splitdown')

    if kind == 'dicts-roundtrip':
        if not rows:
            return None
        # missing=: the filler for a field a record does not carry.  Every record of dicts(t) carries every field (a None cell is
        # a key that is present), so no choice of filler may show in the result
        mkw = [{}, {'missing': 'NA'}, {'missing': 0}][int(util.fp(case)[4:6], 16) % 3]
        if mkw:
            ctx.seen('fromdicts-with-a-non-default-missing')
            if any(c is None for r in rows for c in r):
                ctx.seen('fromdicts-with-a-non-default-missing:None-cells-present')
        got = util.attempt_rows_twice(lambda: petl.fromdicts(petl.dicts(table), **mkw), live=table)
        d = _diff(got, [tuple(hdr)] + rows, 'fromdicts(dicts)')
        if d:
            return d
        got = util.attempt_rows_twice(lambda: petl.fromdicts(list(petl.dicts(copy.deepcopy(case['table']))), header=list(hdr), **mkw))
        d = _diff(got, [tuple(hdr)] + rows, 'fromdicts(list(dicts), header)')
        if d:
            return d
        # header discovery samples the first `sample` records: every record carries every field, so any sample >= 1 must do
        for sample in range(1, len(rows) + 2):
            for src in (lambda: list(petl.dicts(copy.deepcopy(case['table']))), lambda: (x for x in list(petl.dicts(copy.deepcopy(case['table']))))):
                got = util.attempt_rows_twice(lambda: petl.fromdicts(src(), sample=sample, **mkw))
                d = _diff(got, [tuple(hdr)] + rows, 'fromdicts(dicts, sample=%d)' % sample)
                if d:
                    return d
        ctx.seen('fromdicts-sample<nrows')
        # a generator of dicts read by two iterators, one lagging behind the other by `lag` rows (the view spills what the
        # leader pulled; the laggard reads it back while the leader keeps pulling), then a fresh pass
        exp = util.crows([tuple(hdr)] + rows)
        for lag in (1, 2, 3):
            for hdr_arg in (None, list(hdr)):
                kw = dict(mkw, header=hdr_arg) if hdr_arg else dict(mkw)
                v = petl.fromdicts((x for x in list(petl.dicts(copy.deepcopy(case['table'])))), **kw)
                lead, follow = iter(v), iter(v)
                gl, gf = [], []
                try:
                    for _ in range(min(lag, len(rows))):
                        gl.append(tuple(next(lead)))
                    while True:
                        moved = False
                        for it_, g_ in ((lead, gl), (follow, gf)):
                            try:
                                g_.append(tuple(next(it_)))
                                moved = True
                            except StopIteration:
                                pass
                        if not moved:
                            break
                except StopIteration:
                    pass
                fresh = util.attempt_rows(lambda: v)
                ctx.seen('fromdicts-generator:lagging-iterator')
                for who, g_ in (('leader', gl), ('laggard', gf), ('fresh pass', fresh)):
                    if isinstance(g_, util.Raised) or util.crows(g_) != exp:
                        return {'kind': 'result-differs', 'op': 'fromdicts(generator)', 'at': '%s, lag %d, header %s' % (who, lag, 'given' if hdr_arg else 'sampled'),
                                'expected': [tuple(hdr)] + rows, 'observed': g_ if not isinstance(g_, util.Raised) else g_.text}
        return None
    if kind == 'columns-roundtrip':
        kw = {}
        if 'missing' in case:
            kw['missing'] = case['missing']
            rows = [tuple(r) + (case['missing'],) * (len(hdr) - len(r)) for r in rows]
            ctx.seen('columns-with-filler')
        cols = util.attempt(lambda: petl.columns(table, **kw))
        if isinstance(cols, util.Raised):
            return {'kind': 'exception', 'op': 'columns', 'detail': cols.text, 'where': cols.where}
        if list(cols.keys()) != list(hdr) or any(util.crow(cols[h]) != util.crow([r[i] for r in rows]) for i, h in enumerate(hdr)):
            return {'kind': 'result-differs', 'op': 'columns', 'observed': dict(cols)}
        got = util.attempt_rows_twice(lambda: petl.fromcolumns(list(cols.values()), header=list(cols.keys())))
        return _diff(got, [tuple(hdr)] + rows, 'fromcolumns(columns)')
    raise KeyError(kind)
