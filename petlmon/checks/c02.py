"""C02  Pipelines are lazy: nothing is read until rows are requested, then O(k).

Monitor: CountingSource instruments every input (iter() calls, header pulls,
data-row pulls); CountingByteSource instruments the bytes an extractor reads.
(a) construction clause over the whole catalogue: 0 data rows pulled by
constructing a view (headers only where documented); (b) prefix clause for the
streaming operators: the pulls for the first k output rows equal the minimal
prefix m(k) (found by running the real operator on growing list prefixes) up
to a slack of 2 + documented look-ahead, and are identical for a 100-row and a
10 000-row source; (c) extractors; (d) random compositions of streaming operators;
(e) look / see / repr / head on long pipelines.
"""
from __future__ import annotations

import io
import itertools
import os
from contextlib import contextmanager

import petl

from petlmon import catalogue as C
from petlmon import probes, util
from petlmon.run import HarnessError

ID = 'C02'
LEVEL = 'exploration'
RULE = ('cases = (catalogue entry | composition of 2-4 streaming operators | extractor | vis call, clause, k); construction clause for every '
        'view-returning catalogue entry; prefix clause for every streaming entry x k in {0,1,2,5,17} x source lengths {100, 10000}; '
        'extractors fromcsv/fromtsv/fromtext/frompickle on files of 0.2 MB and 5 MB with byte counters; seeded random compositions. '
        'Non-trivial: k >= 1 and the short source already yields k rows (so the pull count is decided by laziness, not by the source '
        'running out). Distinct = SHA-1 of the case.')
ASSUMPTIONS = ['which operators are streaming is taken from the property text via the catalogue (sort-backed operators, crossjoin, tail, transpose, '
               'recast, pivot, validate, unpackdict without keys are judged on the construction clause only)',
               'two rows of look-ahead are legitimate (addfieldusingcontext, selectusingcontext, look overflow probe)']
KS = [0, 1, 2, 5, 17]
SHORT, LONG = 100, 10000
REQUIRED = ['prefix:streamed-side-with-long-runs-of-one-key', 'dbextractor-judged', 'construction-over-table-objects', 'extractor-over-compressed-source', 'lazyarg-judged', 'construction-judged', 'prefix-judged', 'extractor-judged', 'composition-depth>=3', 'vis-judged', 'header-readers-judged']

_files = {}


def _rowfn(i):
    return (i, 'v%d' % (i % 7), str(i % 3))


HDR = ('f0', 'f1', 'f2')


def _rowfn_runs(i):
    # the key column (f0) holds long runs of one value: a probe table clustered on its foreign key
    return (1 + (i // 4000), 'v%d' % (i % 7), str(i % 3))


ROWFN = [_rowfn]


def _src(n):
    return probes.CountingSource(header=HDR, nrows=n, rowfn=ROWFN[0])


def _prefix(m):
    return [list(HDR)] + [list(ROWFN[0](i)) for i in range(m)]


class CountingRaw(io.FileIO):
    def __init__(self, path, counter):
        super().__init__(path, 'rb')
        self._counter = counter

    def readinto(self, b):
        n = super().readinto(b)
        self._counter[0] += n or 0
        return n

    def read(self, size=-1):
        d = super().read(size)
        self._counter[0] += len(d or b'')
        return d

    def readall(self):
        d = super().readall()
        self._counter[0] += len(d or b'')
        return d


class CountingByteSource(object):
    def __init__(self, path):
        self.path = path
        self.opens = 0
        self.bytes = [0]

    @contextmanager
    def open(self, mode='rb'):
        self.opens += 1
        raw = CountingRaw(self.path, self.bytes)
        buf = io.BufferedReader(raw)
        try:
            yield buf
        finally:
            buf.close()


class CountingCompressedSource(object):
    """petl's own gzip / bz2 / zip source classes over a byte-counting file object"""

    def __init__(self, kind, path, member=None):
        self.kind, self.path, self.member = kind, path, member
        self.opens = 0
        self.bytes = [0]

    @contextmanager
    def open(self, mode='rb'):
        from petl.io.sources import GzipSource, BZ2Source, ZipSource
        self.opens += 1
        buf = io.BufferedReader(CountingRaw(self.path, self.bytes))
        inner = {'gz': lambda: GzipSource(buf), 'bz2': lambda: BZ2Source(buf), 'zip': lambda: ZipSource(buf, self.member)}[self.kind]()
        try:
            with inner.open(mode) as f:
                yield f
        finally:
            buf.close()


def _compress_all(d):
    import bz2
    import gzip
    import zipfile
    for key in list(_files):
        p = _files[key]
        with open(p, 'rb') as f:
            data = f.read()
        with gzip.open(p + '.gz', 'wb') as g:
            g.write(data)
        with bz2.BZ2File(p + '.bz2', 'wb') as g:
            g.write(data)
        for comp, tag in ((zipfile.ZIP_STORED, 'zips'), (zipfile.ZIP_DEFLATED, 'zipd')):
            with zipfile.ZipFile(p + '.' + tag, 'w', comp) as z:
                z.writestr('member', data)


def setup(ctx):
    d = ctx.scratch
    for tag, nrows in (('small', 4000), ('big', 100000)):
        p = os.path.join(d, 'x-%s.csv' % tag)
        with open(p, 'w', newline='') as f:
            f.write('f0,f1,f2\r\n')
            chunk = ''.join('%d,value-number-%d,"quoted, text %d"\r\n' % (i, i, i) for i in range(1000))
            for _ in range(nrows // 1000):
                f.write(chunk)
        _files['csv-' + tag] = p
        p = os.path.join(d, 'x-%s.tsv' % tag)
        with open(p, 'w', newline='') as f:
            f.write('f0\tf1\tf2\r\n')
            chunk = ''.join('%d\tvalue-number-%d\tsome text %d\r\n' % (i, i, i) for i in range(1000))
            for _ in range(nrows // 1000):
                f.write(chunk)
        _files['tsv-' + tag] = p
        p = os.path.join(d, 'x-%s.txt' % tag)
        with open(p, 'w') as f:
            chunk = ''.join('this is line number %d of the text file\n' % i for i in range(1000))
            for _ in range(nrows // 1000):
                f.write(chunk)
        _files['text-' + tag] = p
        p = os.path.join(d, 'x-%s.p' % tag)
        import pickle
        with open(p, 'wb') as f:
            pickle.dump(HDR, f, -1)
            blob = b''.join(pickle.dumps((i, 'value-number-%d' % i, 'some text %d' % i), -1) for i in range(1000))
            for _ in range(nrows // 1000):
                f.write(blob)
        _files['pickle-' + tag] = p
    _compress_all(d)


EXTRACTORS = {
    'fromcsv': lambda s: petl.fromcsv(s),
    'fromcsv-header': lambda s: petl.fromcsv(s, header=['a', 'b', 'c']),
    'fromtsv': lambda s: petl.fromtsv(s),
    'fromtext': lambda s: petl.fromtext(s),
    'fromtext-strip-false': lambda s: petl.fromtext(s, strip=False),
    'fromtext-strip-chars': lambda s: petl.fromtext(s, strip='\n e'),
    'fromtext-header': lambda s: petl.fromtext(s, header=('text',), encoding='ascii', errors='replace'),
    'fromcsv-encoding': lambda s: petl.fromcsv(s, encoding='latin-1', errors='replace'),
    'fromcsv-dialect-args': lambda s: petl.fromcsv(s, delimiter=',', quotechar='"', skipinitialspace=True),
    'fromtsv-header': lambda s: petl.fromtsv(s, header=['a', 'b', 'c']),
    'fromcsv.gz': lambda s: petl.fromcsv(s),
    'fromcsv.bz2': lambda s: petl.fromcsv(s),
    'fromcsv.zip-stored': lambda s: petl.fromcsv(s),
    'fromcsv.zip-deflated': lambda s: petl.fromcsv(s),
    'fromtext.gz': lambda s: petl.fromtext(s),
    'fromtext.zip-deflated': lambda s: petl.fromtext(s, strip=False),
    'frompickle.gz': lambda s: petl.frompickle(s),
    'frompickle.zip-stored': lambda s: petl.frompickle(s),
    'fromtsv.bz2+cut+head': lambda s: petl.head(petl.cut(petl.fromtsv(s), 'f0'), 20),
    'fromtext+capture+head': lambda s: petl.head(petl.capture(petl.fromtext(s, strip=False), 'lines', '(\\d+)', ['n']), 20),
    'frompickle': lambda s: petl.frompickle(s),
    'fromcsv+cut+select+head': lambda s: petl.head(petl.selectne(petl.cut(petl.fromcsv(s), 'f0', 'f2'), 'f0', 'zzz'), 30),
}
EXT_COMPRESSION = {'fromcsv.gz': 'gz', 'fromcsv.bz2': 'bz2', 'fromcsv.zip-stored': 'zips', 'fromcsv.zip-deflated': 'zipd', 'fromtext.gz': 'gz',
                   'fromtext.zip-deflated': 'zipd', 'frompickle.gz': 'gz', 'frompickle.zip-stored': 'zips', 'fromtsv.bz2+cut+head': 'bz2'}
EXT_FILE = {'fromcsv.gz': 'csv', 'fromcsv.bz2': 'csv', 'fromcsv.zip-stored': 'csv', 'fromcsv.zip-deflated': 'csv', 'fromtext.gz': 'text',
            'fromtext.zip-deflated': 'text', 'frompickle.gz': 'pickle', 'frompickle.zip-stored': 'pickle', 'fromtsv.bz2+cut+head': 'tsv',
            'fromtext-strip-false': 'text', 'fromtext-strip-chars': 'text', 'fromtext-header': 'text', 'fromcsv-encoding': 'csv',
            'fromcsv-dialect-args': 'csv', 'fromtsv-header': 'tsv', 'fromtext+capture+head': 'text',
            'fromcsv': 'csv', 'fromcsv-header': 'csv', 'fromtsv': 'tsv', 'fromtext': 'text', 'frompickle': 'pickle', 'fromcsv+cut+select+head': 'csv'}

VIS = {
    'look': lambda v: repr(petl.look(v)),
    'look-limit2': lambda v: repr(petl.look(v, limit=2)),
    'look-simple': lambda v: repr(petl.look(v, style='simple')),
    'look-minimal': lambda v: repr(petl.look(v, style='minimal')),
    'look-minimal-limit2': lambda v: repr(petl.look(v, limit=2, style='minimal', index_header=True)),
    'lookstr-simple': lambda v: str(petl.lookstr(v, style='simple')),
    'look-config-minimal': lambda v: _with_config('look_style', 'minimal', lambda: repr(petl.look(v))),
    'look-config-limit': lambda v: _with_config('look_limit', 2, lambda: repr(petl.look(v))),
    'see-limit2': lambda v: repr(petl.see(v, limit=2)),
    'display-html': lambda v: petl.util.vis._display_html(v),
    'lookstr': lambda v: str(petl.lookstr(v)),
    'see': lambda v: repr(petl.see(v)),
    'repr(wrap)': lambda v: repr(petl.wrap(v)),
    'str(wrap)': lambda v: str(petl.wrap(v)),
    '_repr_html_': lambda v: petl.wrap(v)._repr_html_(),
    'head(3)': lambda v: util.rows_of(petl.head(v, 3)),
    'islice(5)': lambda v: list(itertools.islice(iter(v), 6)),
    'wrap[2]': lambda v: petl.wrap(v)[2],
    # list() / tuple() ask a view for its len() first (a pass of its own over that view): still bounded by what the view selects
    'list(head(3))': lambda v: list(petl.head(v, 3)),
    'tuple(wrap.head(3))': lambda v: tuple(petl.wrap(v).head(3)),
    'len(head(4))': lambda v: len(petl.head(v, 4)),
    'list(rowslice(2, 6))': lambda v: list(petl.rowslice(v, 2, 6)),
    'len(rowslice(1, 9, 2))': lambda v: len(petl.rowslice(v, 1, 9, 2)),
    'list(head(cut(convert)))': lambda v: list(petl.head(petl.cut(petl.convert(v, 'f0', str), 'f0'), 2)),
    'wrap[1:] then 3 rows': lambda v: list(itertools.islice(iter(petl.wrap(v)[1:]), 3)),
    'wrap[2:9]': lambda v: list(petl.wrap(v)[2:9]),
    'wrap[1::2] then 3 rows': lambda v: list(itertools.islice(iter(petl.wrap(v)[1::2]), 3)),
    'values[2:] then 3': lambda v: list(itertools.islice(iter(petl.values(v, 'f0')[2:]), 3)),
    'data[1:] then 3': lambda v: list(itertools.islice(iter(petl.data(v)[1:]), 3)),
    'cut-view[1:] then 2': lambda v: list(itertools.islice(iter(petl.cut(v, 'f0', 'f1')[1:]), 2)),
    'look-vrepr-truncate-width': lambda v: repr(petl.look(v, vrepr=str, truncate=3, width=40)),
    'look-simple-index-header': lambda v: repr(petl.look(v, style='simple', index_header=True, limit=3)),
    'see-vrepr-index-header': lambda v: repr(petl.see(v, vrepr=str, index_header=True)),
    'look-config-vrepr-width': lambda v: _with_config('look_width', 30, lambda: _with_config('look_vrepr', str, lambda: repr(petl.look(v)))),
    'see-config': lambda v: _with_config('see_limit', 2, lambda: _with_config('see_index_header', True, lambda: repr(petl.see(v)))),
    'lookall-on-head': lambda v: repr(petl.lookall(petl.head(v, 4))),
    'look(cut(convert))': lambda v: repr(petl.look(petl.cut(petl.convert(v, 'f0', str), 'f0', 'f1'))),
}
VIS_LIMIT = {'look-vrepr-truncate-width': 5, 'look-simple-index-header': 3, 'see-vrepr-index-header': 5, 'look-config-vrepr-width': 5, 'see-config': 2,
             'lookall-on-head': 4, 'look-simple': 5, 'look-minimal': 5, 'look-minimal-limit2': 2, 'lookstr-simple': 5, 'look-config-minimal': 5, 'look-config-limit': 2,
             'see-limit2': 2, 'display-html': 5,
             'look': 5, 'look-limit2': 2, 'lookstr': 5, 'see': 5, 'repr(wrap)': 5, 'str(wrap)': 5, '_repr_html_': 5, 'head(3)': 3, 'islice(5)': 5,
             'list(head(3))': 8, 'tuple(wrap.head(3))': 8, 'len(head(4))': 5, 'list(rowslice(2, 6))': 14, 'len(rowslice(1, 9, 2))': 10,
             'list(head(cut(convert)))': 6, 'wrap[2]': 2, 'look(cut(convert))': 5, 'wrap[1:] then 3 rows': 4, 'wrap[2:9]': 9, 'wrap[1::2] then 3 rows': 6, 'values[2:] then 3': 5,
             'data[1:] then 3': 4, 'cut-view[1:] then 2': 3}


# operators that keep the (f0:int, f1:text, f2:text) schema, so they can be chained in any order
SCHEMA_SAFE = ['cat', 'stack', 'rowslice', 'rowslice-step', 'skipcomments', 'select', 'select-expr', 'select-field', 'selectne', 'selectlt',
               'selectle', 'selectgt', 'selectge', 'selectcontains', 'selectin', 'selectnotin', 'selectis', 'selectisnot', 'selectisinstance',
               'selectrangeopenleft', 'selectrangeopenright', 'selectrangeopen', 'selectrangeclosed', 'selecttrue', 'selectfalse',
               'selectnone', 'selectnotnone', 'selectusingcontext', 'rowlenselect', 'filldown', 'filldown-field', 'fillright', 'fillleft',
               'wrap', 'cache', 'cache-n2', 'progress', 'log_progress', 'clock', 'sub', 'search', 'search-all', 'searchcomplement',
               'replace', 'replaceall', 'update', 'convert-where', 'convert-passrow', 'addfield', 'extendheader',
               'addfieldusingcontext', 'head']
# entries that are not pipeline constructors although they return views: the catalogue builder itself materialises
# (fromcolumns(columns(...))), or the function is documented to scan the values (facet returns a dict keyed by them)
# stringpatterns / rowlengths (util/counting.py, outside the anchors) are eager profiling helpers returning a materialised summary
NOT_CONSTRUCTORS = {'fromcolumns(columns)', 'facet', 'stringpatterns', 'rowlengths'}


# operators that take a container *argument*: when the argument is itself a lazy petl container over a source, constructing
# the view must not scan it either (the argument is only consulted while rows are produced)
LAZYARG = {
    'selectin(values)': lambda t, arg: petl.selectin(t, 'f0', arg),
    'selectnotin(values)': lambda t, arg: petl.selectnotin(t, 'f0', arg),
    'selectin(values)-complement': lambda t, arg: petl.selectin(t, 'f0', arg, complement=True),
    'addcolumn(values)': lambda t, arg: petl.addcolumn(t, 'new', arg),
    'addcolumn(values)-index': lambda t, arg: petl.addcolumn(t, 'new', arg, index=0),
    'select-expr-in(values)': lambda t, arg: petl.select(t, lambda r: r[0] in arg),
    'convert-membership(values)': lambda t, arg: petl.convert(t, 'f0', lambda v: v in arg),
    'addfield-membership(values)': lambda t, arg: petl.addfield(t, 'new', lambda r: r[0] in arg),
}
LAZYARG_FORMS = {
    'values': lambda s: petl.values(s, 'f0'),
    'values-cut': lambda s: petl.values(petl.cut(s, 'f0'), 0),
    'data-col': lambda s: petl.values(petl.convert(s, 'f0', str), 'f0'),
}


def _with_config(name, value, fn):
    from petl import config as pcfg
    old = getattr(pcfg, name)
    setattr(pcfg, name, value)
    try:
        return fn()
    finally:
        setattr(pcfg, name, old)


def _streaming_unary():
    return list(SCHEMA_SAFE)


def cases(ctx):
    for e in C.ENTRIES.values():
        if e.kind in ('view', 'items', 'multi', 'dictviews') and e.name not in NOT_CONSTRUCTORS:
            yield {'clause': 'construction', 'op': e.name}
            yield {'clause': 'construction', 'op': e.name, 'wrapped': True}
    for e in C.ENTRIES.values():
        if e.stream is not None and e.kind in ('view', 'items'):
            for k in KS:
                yield {'clause': 'prefix', 'op': e.name, 'k': k}
            if e.name.startswith('hash'):
                # the streamed side of a hash join is probed row by row, however its keys are clustered
                for k in (1, 5):
                    yield {'clause': 'prefix', 'op': e.name, 'k': k, 'runs': True}
    for name in EXTRACTORS:
        yield {'clause': 'extractor', 'op': name, 'k': 0}
        for k in (1, 5, 17):
            yield {'clause': 'extractor', 'op': name, 'k': k}
    for handle in ('connection', 'cursor', 'cursor-factory'):
        for k in (0, 1, 5, 17):
            yield {'clause': 'dbextractor', 'op': 'fromdb(%s)' % handle, 'handle': handle, 'k': k}
        yield {'clause': 'dbextractor', 'op': 'fromdb(%s)+convertall+head' % handle, 'handle': handle, 'k': 3, 'pipeline': True}
    for name in VIS:
        yield {'clause': 'vis', 'op': name}
    for name in LAZYARG:
        for form in LAZYARG_FORMS:
            yield {'clause': 'lazyarg', 'op': name, 'form': form}
    rng = ctx.rng('compose')
    names = _streaming_unary()
    for i in range(ctx.pick(2500, 40000)):
        depth = rng.randint(2, 4)
        chain = [rng.choice(names) for _ in range(depth)]
        yield {'clause': 'composition', 'op': '+'.join(chain), 'chain': chain, 'k': rng.choice([1, 2, 5, 17])}


# ---------------------------------------------------------------------------

def _apply_chain(chain, s):
    """compose catalogue builders; every builder expects fields f0, f1, f2 so
    the header is restored between stages"""
    v = s
    for name in chain:
        v = C.by_name(name).build(v)
        if name in ('addfield', 'extendheader', 'addfieldusingcontext'):
            v = petl.cut(v, 'f0', 'f1', 'f2')
    return v


def _take(view, k):
    return list(itertools.islice(iter(view), k + 1))


def judge(case, ctx):
    clause = case['clause']
    if clause == 'construction':
        return _judge_construction(case, ctx)
    if clause == 'prefix':
        e = C.by_name(case['op'])
        return _judge_prefix(case, ctx, lambda srcs: e.build(*srcs), e.arity, e.stream, e.lookahead, e)
    if clause == 'composition':
        chain = case['chain']
        if len(chain) >= 3:
            ctx.seen('composition-depth>=3')
        la = sum(C.by_name(n).lookahead for n in chain)
        return _judge_prefix(case, ctx, lambda srcs: _apply_chain(chain, srcs[0]), 1, 0, la, None)
    if clause == 'extractor':
        return _judge_extractor(case, ctx)
    if clause == 'lazyarg':
        return _judge_lazyarg(case, ctx)
    if clause == 'dbextractor':
        return _judge_dbextractor(case, ctx)
    return _judge_vis(case, ctx)


def _judge_construction(case, ctx):
    e = C.by_name(case['op'])
    srcs = [_src(SHORT)]
    if e.arity == 2:
        srcs.append(probes.CountingSource(C.second_for(e, 3)))
    if case.get('wrapped'):
        # the inputs are petl Table objects (whose repr() / str() / len() evaluate them): constructing a pipeline over them reads no
        # data row either
        ctx.seen('construction-over-table-objects')
        obj = e.build(*[petl.wrap(s_) for s_ in srcs])
    else:
        obj = e.build(*srcs)
    ctx.seen('construction-judged')
    out = []
    for i, s in enumerate(srcs):
        if s.data_pulls:
            out.append({'kind': 'construction-read-data-rows', 'input': i, 'pulls': s.counts()})
        elif s.header_pulls and not e.hdr:
            out.append({'kind': 'construction-read-a-header-undocumented', 'input': i, 'pulls': s.counts()})
        elif s.iter_calls > 2:
            out.append({'kind': 'construction-opened-the-source-more-than-twice', 'input': i, 'pulls': s.counts()})
    if e.hdr:
        ctx.seen('header-readers-judged')
    del obj
    return out


def _judge_prefix(case, ctx, build, arity, stream, lookahead, e):
    if case.get('runs'):
        ROWFN[0] = _rowfn_runs
        ctx.seen('prefix:streamed-side-with-long-runs-of-one-key')
        try:
            return _judge_prefix(dict((k_, v_) for k_, v_ in case.items() if k_ != 'runs'), ctx, build, arity, stream, lookahead, e)
        finally:
            ROWFN[0] = _rowfn
    k = case['k']
    # minimal prefix m(k): least m such that the operator on a plain m-row list already yields k data rows
    def second():
        return C.second_for(e, 3) if (e is not None and arity == 2) else None

    def inputs(primary):
        if arity == 1:
            return [primary]
        other = second()
        return [primary, other] if stream == 0 else [other, primary]
    # a stage with one row of look-ahead needs its *input* to deliver one more row, which (behind a filter or a strided
    # slice) can cost several source rows: the bound is the minimal prefix for k + look-ahead output rows
    kk = k + lookahead
    m = None
    for cand in range(kk, SHORT + 1):
        if len(_take(build(inputs(_prefix(cand))), kk)) == kk + 1:
            m = cand
            break
    if m is None:
        ctx.seen('prefix-skipped:short-source-yields-fewer-than-k-rows')
        return None
    pulls = {}
    for n in (SHORT, LONG):
        s = _src(n)
        view = build(inputs(s))
        if s.data_pulls:
            return {'kind': 'construction-read-data-rows', 'pulls': s.counts()}
        got = _take(view, k)
        if len(got) != k + 1:
            return {'kind': 'prefix-shorter-than-on-list-input', 'n': n, 'got': len(got)}
        pulls[n] = s.data_pulls
        del view
    ctx.seen('prefix-judged')
    if k >= 1:
        ctx.mark_nontrivial()
    if pulls[SHORT] != pulls[LONG]:
        return {'kind': 'pull-count-depends-on-source-length', 'k': k, 'pulls': pulls, 'minimal-prefix': m}
    slack = 2
    if pulls[SHORT] > m + slack:
        return {'kind': 'pulled-more-than-k-plus-constant', 'k': k, 'pulls': pulls, 'minimal-prefix': m, 'slack': slack}
    return None


def _judge_lazyarg(case, ctx):
    t, a = _src(SHORT), _src(SHORT)
    arg = LAZYARG_FORMS[case['form']](a)
    if a.data_pulls:
        raise HarnessError('the lazy argument form itself reads data rows')
    view = LAZYARG[case['op']](t, arg)
    ctx.seen('lazyarg-judged')
    ctx.mark_nontrivial()
    for which, s in (('table', t), ('argument', a)):
        if s.data_pulls:
            return {'kind': 'construction-read-data-rows', 'input': which, 'pulls': s.counts()}
    # the view works: its first rows come out, and only now the argument is consulted
    got = _take(view, 2)
    if not got:
        return {'kind': 'prefix-shorter-than-on-list-input', 'got': len(got)}
    del view
    if case['op'].startswith('addcolumn'):
        # a column argument is consumed in step with the table: the first k rows cost O(k) rows of the argument too, whatever its
        # length (membership arguments are different: `v in values` scans until it finds v)
        pulls = {}
        for k in (1, 5):
            for n in (SHORT, LONG):
                t, a = _src(n), _src(n)
                v = LAZYARG[case['op']](t, LAZYARG_FORMS[case['form']](a))
                for _ in range(2):        # two passes: the cost of a later pass is bounded in the same way
                    _take(v, k)
                pulls[(k, n)] = (t.data_pulls, a.data_pulls)
                del v
            ctx.seen('lazyarg-prefix-judged')
            if pulls[(k, SHORT)] != pulls[(k, LONG)] or max(pulls[(k, LONG)]) > 2 * (k + 2) + 2:
                return {'kind': 'pull-count-depends-on-source-length', 'what': 'rows pulled from (table, column argument) for the first %d rows, twice' % k,
                        'short': pulls[(k, SHORT)], 'long': pulls[(k, LONG)]}
    return None


def _judge_dbextractor(case, ctx):
    """fromdb over every handle kind that lets the harness count result rows as the database steps them (a user-defined SQL
    function evaluated once per stepped row)"""
    import sqlite3
    k = case['k']
    steps = {}
    for n in (200, 20000):
        conn = sqlite3.connect(':memory:')
        conn.execute('CREATE TABLE t (a, b)')
        conn.executemany('INSERT INTO t VALUES (?, ?)', ((i, 'v%d' % i) for i in range(n)))
        conn.commit()
        counter = [0]

        def tick(x, counter=counter):
            counter[0] += 1
            return x
        conn.create_function('tick', 1, tick)
        q = 'SELECT tick(a) AS a, b FROM t'
        h = {'connection': lambda: conn, 'cursor': lambda: conn.cursor(), 'cursor-factory': lambda: (lambda: conn.cursor())}[case['handle']]()
        view = petl.fromdb(h, q)
        if case.get('pipeline'):
            view = petl.head(petl.convertall(view, str), 50)
        if counter[0] and not case.get('pipeline'):
            conn.close()
            return {'kind': 'construction-read-data-rows', 'stepped': counter[0]}
        base = counter[0]         # convertall reads the header at construction: the statement may have been stepped once
        if k:
            got = _take(view, k)
            if len(got) != k + 1:
                conn.close()
                return {'kind': 'extractor-returned-too-few-rows', 'got': len(got)}
        steps[n] = (base, counter[0])
        del view
        conn.close()
    ctx.seen('dbextractor-judged')
    if k:
        ctx.mark_nontrivial()
    if steps[200] != steps[20000]:
        return {'kind': 'rows-stepped-depend-on-the-size-of-the-result', 'k': k, 'stepped': steps}
    if steps[200][1] > 2 * (k + 2):
        return {'kind': 'stepped-more-than-k-plus-constant', 'k': k, 'stepped': steps}
    return None


def _judge_extractor(case, ctx):
    name, k = case['op'], case['k']
    kind = EXT_FILE[name]
    counts = {}
    for tag in ('small', 'big'):
        comp = EXT_COMPRESSION.get(name)
        if comp is None:
            s = CountingByteSource(_files['%s-%s' % (kind, tag)])
        else:
            ctx.seen('extractor-over-compressed-source')
            s = CountingCompressedSource(comp[:3].rstrip('sd') if comp.startswith('zip') else comp, _files['%s-%s' % (kind, tag)] + '.' + comp, 'member')
        view = EXTRACTORS[name](s)
        if s.opens or s.bytes[0]:
            return {'kind': 'construction-opened-the-file', 'opens': s.opens, 'bytes': s.bytes[0]}
        if k == 0:
            counts[tag] = (0, 0)
            continue
        got = _take(view, k)
        if len(got) != k + 1:
            return {'kind': 'extractor-returned-too-few-rows', 'got': len(got)}
        counts[tag] = (s.opens, s.bytes[0])
        del view
    ctx.seen('extractor-judged')
    if k >= 1:
        ctx.mark_nontrivial()
        if EXT_COMPRESSION.get(name):
            # the decompressors read ahead in their own buffers (gzip: 128 KiB + 8 KiB), and the small archive may be smaller than
            # that: the claim is a constant bound on the big archive, far below its size
            size = os.path.getsize(_files['%s-%s' % (kind, 'big')] + '.' + EXT_COMPRESSION[name])
            if counts['big'][1] > 200000 or counts['big'][1] >= size:
                return {'kind': 'read-more-than-a-constant-number-of-buffers-for-k-rows', 'k': k, 'counts': counts, 'archive-size': size}
            return None
        if counts['small'] != counts['big']:
            return {'kind': 'bytes-read-depend-on-file-length', 'k': k, 'counts': counts}
        if counts['small'][1] > 65536:
            return {'kind': 'read-more-than-one-buffer-for-k-rows', 'k': k, 'counts': counts}
    return None


def _judge_vis(case, ctx):
    name = case['op']
    pulls = {}
    for n in (SHORT, LONG):
        s = _src(n)
        VIS[name](s)
        pulls[n] = s.data_pulls
    ctx.seen('vis-judged')
    ctx.mark_nontrivial()
    if pulls[SHORT] != pulls[LONG]:
        return {'kind': 'pull-count-depends-on-source-length', 'pulls': pulls}
    if pulls[SHORT] > VIS_LIMIT[name] + 2:
        return {'kind': 'pulled-more-than-k-plus-constant', 'pulls': pulls, 'limit': VIS_LIMIT[name]}
    return None
