"""C06  Sort-merge joins are the relational operators.

Oracle: nested-loop reference join (petlmon/oracles.py) on squared-up inputs.
Observed: header, multiset of data rows, ascending key grouping, and which way
the merge loop must have run out (exhaustion mode), tallied from the inputs.
"""
from __future__ import annotations

import copy
import itertools

import petl

from petlmon import gen, oracles, util

ID = 'C06'
LEVEL = 'exploration'
RULE = ('cases = (operator, left, right, key arguments, missing, prefixes, presorted); directed battery + '
        '(thorough) all pairs of key columns of length <= 3 over {None,1,2} + seeded random pairs of 0-5 row tables with '
        'keys from a 5-value pool (None, equal-but-different types, mixed), compound keys, lkey/rkey, natural key, ragged rows. '
        'Non-trivial: both sides non-empty with at least one matching and one non-matching key. Distinct = SHA-1 of the case.')
ASSUMPTIONS = ['key equality is == on the squared-up key cells (the reference uses the model equivalence, which agrees with == on the generated domain)',
               'antijoin does not square up its rows: left rows come out as they are, and a key cell that a row lacks counts as None']
MODES = ['both-empty', 'left-empty', 'right-empty', 'left-ends-first-after-mismatch', 'right-ends-first-after-mismatch',
         'both-end-on-match', 'left-ends-first-after-match', 'right-ends-first-after-match']
OPS = ['join', 'leftjoin', 'rightjoin', 'outerjoin', 'lookupjoin', 'antijoin']
REQUIRED = ['views-read-twice', 'inputs-are-pass-through-views'] + ['mode:' + m for m in MODES] + ['op:' + o for o in OPS] + ['op:crossjoin',
            'none-key-left+right-empty', 'none-key-right+left-empty', 'ragged-input', 'natural-key', 'lkey!=rkey', 'compound-key', 'presorted', 'presorted-ragged', 'key-by-index', 'key-index-0', 'chunked-sort-of-right-input', 'second-view-on-the-same-input-objects']


def required(tier):
    return REQUIRED


def _mk(op, left, right, **kw):
    c = {'op': op, 'left': left, 'right': right, 'key': None, 'lkey': None, 'rkey': None, 'missing': None,
         'lprefix': None, 'rprefix': None, 'presorted': False, 'buffersize': None}
    c.update(kw)
    return c


def _battery():
    L = [['k', 'a'], [None, 'x'], [1, 'y']]
    R0 = [['k', 'b']]
    for op in OPS:
        yield _mk(op, L, R0, key='k')
        yield _mk(op, [['k', 'a']], [['k', 'b'], [None, 'p'], [2, 'q']], key='k')
        yield _mk(op, [['k', 'a']], R0, key='k')
        # every exhaustion mode
        yield _mk(op, [['k', 'a'], [1, 'x'], [2, 'y']], [['k', 'b'], [3, 'p']], key='k')          # left ends first after mismatch
        yield _mk(op, [['k', 'a'], [3, 'x']], [['k', 'b'], [1, 'p'], [2, 'q']], key='k')          # right ends first after mismatch
        yield _mk(op, [['k', 'a'], [1, 'x'], [2, 'y']], [['k', 'b'], [1, 'p'], [2, 'q']], key='k')  # both end on match
        yield _mk(op, [['k', 'a'], [1, 'x']], [['k', 'b'], [1, 'p'], [2, 'q'], [2, 'r']], key='k')  # left ends first after match
        yield _mk(op, [['k', 'a'], [1, 'x'], [2, 'y'], [2, 'z']], [['k', 'b'], [1, 'p']], key='k')  # right ends first after match
        yield _mk(op, [['k', 'a'], [1, 'x'], [1, 'y']], [['k', 'b'], [1, 'p'], [1.0, 'q'], [True, 'r']], key='k')
        yield _mk(op, [['k', 'j', 'a'], [1, None, 'x'], [1, 2, 'y']], [['k', 'j', 'b'], [1, None, 'p'], [1, 3, 'q']], key=('k', 'j'))
        yield _mk(op, [['k', 'a'], [1, 'x'], ['a', 'y'], [None, 'z']], [['b', 'k2'], ['p', 'a'], ['q', None], ['r', b'a']], lkey='k', rkey='k2')
        yield _mk(op, [['k', 'a'], [1, 'x']], [['k', 'b'], [1, 'p']])   # natural
        yield _mk(op, [['k', 'a'], [2, 'x'], [1, 'y']], [['k'], [1], [3]], key='k')   # no value field on the right
    for op in ('join', 'leftjoin', 'rightjoin', 'outerjoin', 'lookupjoin'):
        yield _mk(op, [['k', 'a'], [1], [2, 'y', 'extra'], []], [['k', 'b'], [1, 'p'], [None]], key='k')
        yield _mk(op, [['k', 'a'], [1, 'x']], [['k', 'b'], [1, 'p']], key='k', lprefix='l_', rprefix='r_')
    for op in ('leftjoin', 'rightjoin', 'outerjoin', 'lookupjoin'):
        yield _mk(op, [['k', 'a'], [1], [2, 'y']], [['k', 'b'], [3, 'p'], []], key='k', missing='M')
    yield _mk('crossjoin', [['a'], [1], [2]], [['b'], ['x'], ['y']], prefix=False)
    yield _mk('crossjoin', [['a'], [1], [2]], [['b'], ['x'], []], prefix=True, missing='M', third=[['c', 'd'], [1]])
    yield _mk('crossjoin', [['a']], [['b'], ['x']], prefix=False)


def cases(ctx):
    for c in _battery():
        yield c
    if not ctx.quick:
        cols = [c for n in range(0, 4) for c in itertools.product([None, 1, 2], repeat=n)]
        for lc in cols:
            for rc in cols:
                left = [['k', 'a']] + [[k, 'L%d' % i] for i, k in enumerate(lc)]
                right = [['k', 'b']] + [[k, 'R%d' % i] for i, k in enumerate(rc)]
                for op in OPS:
                    yield _mk(op, left, right, key='k')
    rng = ctx.rng('random')
    for i in range(ctx.pick(40000, 600000)):
        op = OPS[i % len(OPS)]
        pool = rng.sample(gen.KEY_POOL, 4) + [None] if rng.random() < 0.7 else rng.sample(gen.HASHABLE_POOL, 5)
        if rng.random() < 0.15:
            pool = pool + [[1, 2], (1, 2), [1, 2]]      # a list and the tuple with the same elements are one key under the ordering
        nkey = 1 if rng.random() < 0.7 else 2
        samenames = rng.random() < 0.6
        lkn = ['k', 'j'][:nkey]
        rkn = lkn if samenames else ['rk', 'rj'][:nkey]
        # field names need not be strings (years, codes): they travel into the output header as they are
        nonstr = rng.random() < 0.12
        lhdr = lkn + (['a', 2019] if nonstr else ['a', 'a2'])[:rng.randint(0, 2)]
        rhdr = rkn + ([2020, 'b2'] if nonstr else ['b', 'b2'])[:rng.randint(0, 2)]
        rng.shuffle(lhdr)
        rng.shuffle(rhdr)
        # antijoin passes left rows through as they are; a key cell a row does not have counts as None on either side
        ragged = 0.3 if rng.random() < 0.3 else 0.0

        def side(hdr, kn, tag, n):
            rows = []
            for r in range(n):
                row = []
                for f in hdr:
                    row.append(rng.choice(pool) if f in kn else '%s%d%s' % (tag, r, f))
                if ragged and rng.random() < ragged:
                    row = row[:rng.randrange(len(row) + 1)] if rng.random() < 0.75 else row + ['extra']
                rows.append(row)
            return [list(hdr)] + rows
        left = side(lhdr, lkn, 'L', rng.choice([0, 1, 2, 3, 3, 4, 5]))
        right = side(rhdr, rkn, 'R', rng.choice([0, 1, 2, 3, 3, 4, 5]))
        kw = {}
        if samenames:
            if rng.random() < 0.25:
                pass  # natural key
            else:
                kw['key'] = lkn[0] if nkey == 1 and rng.random() < 0.7 else (tuple(lkn) if rng.random() < 0.5 else list(lkn))
                if nkey == 1 and rng.random() < 0.15:
                    kw['key'] = lhdr.index(lkn[0]) if lhdr.index(lkn[0]) == rhdr.index(rkn[0]) else kw['key']
        else:
            kw['lkey'] = lkn[0] if nkey == 1 else tuple(lkn)
            kw['rkey'] = rkn[0] if nkey == 1 else tuple(rkn)
        if nkey == 1 and rng.random() < 0.12:
            # the key as a field *index*: both key columns are moved to one position (index 0 included), whatever their names,
            # and (sometimes) the sides also share a non-key field name, so that a natural join would be a different join
            pos = rng.randrange(0, min(len(lhdr), len(rhdr)))
            for hdr_, kn_, tbl_ in ((lhdr, lkn, left), (rhdr, rkn, right)):
                cur = hdr_.index(kn_[0])
                for r_ in tbl_:
                    if cur < len(r_) and pos < len(r_):
                        r_[cur], r_[pos] = r_[pos], r_[cur]
                hdr_[cur], hdr_[pos] = hdr_[pos], hdr_[cur]
            if rng.random() < 0.5 and len(lhdr) > 1 and len(rhdr) > 1:
                li = [i for i in range(len(lhdr)) if i != pos][0]
                ri = [i for i in range(len(rhdr)) if i != pos][0]
                right[0][ri] = left[0][li]
                rhdr[ri] = lhdr[li]
            kw = {'key': pos} if rng.random() < 0.6 else {'lkey': pos, 'rkey': pos}
            ragged = 0.0
            left = [left[0]] + [r_ for r_ in left[1:] if len(r_) == len(left[0])]
            right = [right[0]] + [r_ for r_ in right[1:] if len(r_) == len(right[0])]
        if op != 'antijoin':
            if rng.random() < 0.2:
                kw['lprefix'] = 'l_'
            if rng.random() < 0.2:
                kw['rprefix'] = 'r_'
            if op != 'join' and rng.random() < 0.3:
                kw['missing'] = rng.choice(['M', 0, (), pool[0]])
        if rng.random() < 0.2:
            kw['presorted'] = True
        elif rng.random() < 0.2:
            # the same relational result is due when the inputs are sorted through chunk files (first partner = first in table order)
            kw['buffersize'] = rng.choice([1, 2])
        yield _mk(op, left, right, **kw)
    for i in range(ctx.pick(1000, 10000)):
        nt = rng.randint(2, 3)
        ts = [gen.table(rng, nrows=rng.randint(0, 3), nfields=rng.randint(1, 2), header=None, pool=gen.SCALAR_POOL,
                        ragged=0.3 if rng.random() < 0.3 else 0) for _ in range(nt)]
        for j, t in enumerate(ts):
            t[0] = ['t%d%s' % (j, f) for f in t[0]]
        c = _mk('crossjoin', ts[0], ts[1], prefix=rng.random() < 0.4, missing=rng.choice([None, None, 'M']))
        if nt == 3:
            c['third'] = ts[2]
        yield c


# ---------------------------------------------------------------------------

def _keys(case):
    lhdr, rhdr = case['left'][0], case['right'][0]
    if case['key'] is None and case['lkey'] is None:
        nk = oracles.natural_key(lhdr, rhdr)
        k = nk[0] if len(nk) == 1 else nk
        return k, k, True
    if case['key'] is not None:
        return case['key'], case['key'], False
    return case['lkey'], case['rkey'], False


def judge(case, ctx):
    op = case['op']
    ctx.op('op:' + op)
    if op == 'crossjoin':
        return _judge_cross(case, ctx)
    left, right = copy.deepcopy(case['left']), copy.deepcopy(case['right'])
    lkey, rkey, natural = _keys(case)
    missing = case['missing']
    if op == 'antijoin':
        exp_hdr, exp_rows = oracles.ref_antijoin(left, right, lkey, rkey)
        lsq, rsq = oracles.square(left, None), oracles.square(right, None)
    else:
        exp_hdr, exp_rows = oracles.ref_join(op, left, right, lkey, rkey, missing, case['lprefix'], case['rprefix'])
        lsq, rsq = oracles.square(left, missing), oracles.square(right, missing)
    lk = gen.resolve_key(lsq[0], lkey)
    rk = gen.resolve_key(rsq[0], rkey)
    lkeys = oracles.distinct_sorted_keys(lsq[1], lk)
    rkeys = oracles.distinct_sorted_keys(rsq[1], rk)
    mode = oracles.merge_mode(lkeys, rkeys)
    ctx.seen('mode:' + mode)
    ctx.op('%s|%s' % (op, mode))
    if natural:
        ctx.seen('natural-key')
    if case['lkey'] is not None and case['lkey'] != case['rkey']:
        ctx.seen('lkey!=rkey')
    if len(lk) > 1:
        ctx.seen('compound-key')
    if any(isinstance(case[a_], int) for a_ in ('key', 'lkey', 'rkey')):
        ctx.seen('key-by-index')
        if case['key'] == 0 or case['lkey'] == 0:
            ctx.seen('key-index-0')
    if any(len(r) != len(left[0]) for r in left[1:]) or any(len(r) != len(right[0]) for r in right[1:]):
        ctx.seen('ragged-input')
    if not rsq[1] and any(oracles.key_eq(k, (None,) * len(lk)) for k in lkeys):
        ctx.seen('none-key-left+right-empty')
    if not lsq[1] and any(oracles.key_eq(k, (None,) * len(rk)) for k in rkeys):
        ctx.seen('none-key-right+left-empty')
    matched = [k for k in lkeys if any(oracles.key_eq(k, x) for x in rkeys)]
    if lkeys and rkeys and matched and (len(matched) < len(lkeys) or len(matched) < len(rkeys)):
        ctx.mark_nontrivial()

    kw = {}
    for a in ('key', 'lkey', 'rkey'):
        if case[a] is not None:
            kw[a] = case[a]
    if op != 'antijoin':
        for a in ('lprefix', 'rprefix'):
            if case[a] is not None:
                kw[a] = case[a]
        if op != 'join' and missing is not None:
            kw['missing'] = missing
    a, b = left, right
    if case['presorted']:
        ctx.seen('presorted')
        kw['presorted'] = True
        # sorted by the squared-up key; rows stay ragged wherever their key cells exist (the join squares them up itself)
        def presort(tbl, sq, kidx):
            raw = [tuple(r) for r in tbl[1:]]
            pairs = sorted(zip(sq[1], raw), key=lambda p: util.model_key(oracles.keytuple(p[0], kidx)))
            if op == 'antijoin':
                return [sq[0]] + [r for s_, r in pairs]        # rows as they are, in the order of their (None-completed) keys
            return [sq[0]] + [(r if (all(i < len(r) for i in kidx) and len(r) <= len(sq[0])) else s_) for s_, r in pairs]
        a = presort(left, lsq, lk)
        b = presort(right, rsq, rk)
        if any(len(r) != len(a[0]) for r in a[1:]) or any(len(r) != len(b[0]) for r in b[1:]):
            ctx.seen('presorted-ragged')
    if case.get('buffersize') is not None:
        kw['buffersize'] = case['buffersize']
        if len(right) - 1 > case['buffersize']:
            ctx.seen('chunked-sort-of-right-input')
    fn = getattr(petl, op)
    form = int(util.fp(case)[4:6], 16) % 8
    if form < 3:
        # the inputs are themselves views that hand every row on as it is (ragged rows stay ragged)
        passthrough = [petl.wrap, lambda t: petl.stack(t, pad=False, trim=False), lambda t: petl.rowslice(t, None)][form]
        a, b = passthrough(a), passthrough(b)
        ctx.seen('inputs-are-pass-through-views')
    got = util.attempt_rows_twice(lambda: fn(a, b, **kw))
    if isinstance(got, util.Raised):
        return {'kind': 'exception', 'detail': got.text, 'where': got.where, 'mode': mode, 'expected': [tuple(exp_hdr)] + exp_rows}
    out = []
    if not got or util.crow(got[0]) != util.crow(exp_hdr):
        out.append({'kind': 'header-differs', 'expected': exp_hdr, 'observed': got[:1], 'mode': mode})
    if oracles.multiset(got[1:]) != oracles.multiset(exp_rows):
        out.append({'kind': 'rows-differ', 'mode': mode, 'expected': exp_rows, 'observed': got[1:]})
    else:
        ks = [oracles.keytuple(r, lk) for r in got[1:]]
        if not oracles.ascending(ks):
            out.append({'kind': 'keys-not-ascending', 'mode': mode, 'observed': got[1:]})
    ragged_in = any(len(r) != len(left[0]) for r in left[1:]) or any(len(r) != len(right[0]) for r in right[1:])
    if not out and ragged_in and not case['presorted'] and op in ('leftjoin', 'rightjoin', 'outerjoin', 'lookupjoin'):
        # a second view over the *same* table objects with another `missing`: what the first view did while squaring the rows up
        # must not show in it
        ctx.seen('second-view-on-the-same-input-objects')
        kw2 = dict(kw, missing='M2')
        e2h, e2r = oracles.ref_join(op, copy.deepcopy(case['left']), copy.deepcopy(case['right']), lkey, rkey, 'M2', case['lprefix'], case['rprefix'])
        got2 = util.attempt_rows(lambda: fn(a, b, **kw2))
        if isinstance(got2, util.Raised):
            out.append({'kind': 'exception', 'detail': got2.text, 'where': got2.where, 'at': 'second view on the same inputs'})
        elif util.crow(got2[0]) != util.crow(e2h) or oracles.multiset(got2[1:]) != oracles.multiset(e2r):
            out.append({'kind': 'rows-differ', 'mode': mode, 'at': 'second view on the same input objects, missing=M2', 'expected': e2r, 'observed': got2[1:]})
    return out


def _judge_cross(case, ctx):
    tables = [copy.deepcopy(case['left']), copy.deepcopy(case['right'])]
    if case.get('third'):
        tables.append(copy.deepcopy(case['third']))
    exp_hdr, exp_rows = oracles.ref_crossjoin(tables, case.get('prefix', False), case['missing'])
    if all(len(t) > 2 for t in tables):
        ctx.mark_nontrivial()
    kw = {}
    if case.get('prefix'):
        kw['prefix'] = True
    if case['missing'] is not None:
        kw['missing'] = case['missing']
    got = util.attempt_rows_twice(lambda: petl.crossjoin(*tables, **kw))
    if isinstance(got, util.Raised):
        return {'kind': 'exception', 'detail': got.text, 'where': got.where}
    if util.crows(got) != util.crows([tuple(exp_hdr)] + exp_rows):
        return {'kind': 'rows-differ', 'expected': [exp_hdr] + exp_rows, 'observed': got}
    return None
