"""C15  Writing a table and reading it back returns the same table.

Round trips through real targets (path, .gz, .bz2, MemorySource) for csv / tsv,
pickle, json (array and lines form) and jsonarrays, plus append sequences
(file bytes after to* + append* vs bytes of to*(concatenation)).
csv dialect questions are judged *differentially*: the same rows are written
and read by the stdlib csv module through an in-memory StringIO with the same
dialect arguments; only if the stdlib itself is lossless for this (table,
dialect) must petl's file round trip be lossless and the decoded file text
equal the StringIO text.  That isolates what petl adds (binary source,
TextIOWrapper(newline=''), encoding, flush / detach order, append mode).
"""
from __future__ import annotations

import bz2
import copy
import csv
import gzip
import io
import zlib
import json
import os

import petl
from petl.io.sources import MemorySource

from petlmon import gen, util

ID = 'C15'
LEVEL = 'exploration'
RULE = ('cases = (format, table, encoding, dialect arguments, source kind, header flags, append sequence); seeded random tables of 0-5 rows x '
        '1-3 fields; csv cell text over an alphabet with , ; TAB | " \' CR LF NUL space and non-ASCII letters, empty strings, typed cells '
        '(rendered by str()), ragged and empty rows; encodings utf-8, utf-8-sig, utf-16, utf-16-le, utf-32, latin-1, cp1252, ascii '
        '(cells restricted to the encodable subset); delimiter in , ; TAB |, quotechar in " \', all four quoting modes; sources path, .gz, '
        '.bz2, MemorySource; write_header on/off, header= on read; 0-3 appends. Non-trivial: >= 2 data rows and some cell needs quoting, '
        'is non-ASCII, or is not a string. Distinct = SHA-1 of the case.')
ASSUMPTIONS = ['stdlib csv / pickle / json / gzip / bz2 behave as documented', 'line terminator and doublequote left at their defaults (property domain)']
FORMATS = ['csv', 'tsv', 'pickle', 'json', 'jsonl', 'jsonarrays']
SOURCES = ['path', 'gz', 'bz2', 'memory']
ENCODINGS = [None, 'utf-8', 'utf-8-sig', 'utf-16', 'utf-16-le', 'utf-32', 'latin-1', 'cp1252', 'ascii']
REQUIRED = (['fmt:' + f for f in FORMATS] + ['source:' + s for s in SOURCES] + ['encoding:%s' % e for e in ENCODINGS] +
            ['quoting:%d-judged' % q for q in (0, 1, 2, 3)] + ['cell-with-delimiter', 'cell-with-quotechar', 'cell-with-CR', 'cell-with-LF',
             'cell-with-CRLF', 'cell-with-NUL', 'append-bytes-compared', 'write_header=False', 'header-on-read', 'stdlib-not-lossless-skipped', 'target-held-older-longer-content', 'append-with-write_header=True', 'tojson-prefix-suffix', 'fromjson-with-missing', 'reader-view-reused-after-a-rewrite'])

ALPHA = ['\\', '\ufeff', '\x0b', '\x0c', '\x1c', '\x1e', '\x85', '\u2028', '\u2029', ',', ';', '\t', '|', '"', "'", '\r', '\n', '\r\n', '\0', ' ', 'é', 'ü', '€', '漢', 'a', 'b', 'Z', '0', '1', '', '']
TYPED = [None, 0, 1, -2, 2.5, True, False, gen.D(2020, 1, 1), (1, 'x'), b'by', 1e100]
JSONCELLS = [None, True, False, 0, 1, -7, 2.5, 1e100, 0.1, '', 'a', 'é€漢', 'q"uote', 'back\\slash', 'nl\nx', ' ', [1, 2], [], ['a', [None]],
             {'k': 1}, {'k': {'n': [1]}}, (1, 2)]
PICKLECELLS = gen.POOL + [{'k': [1]}, 1e100, 'é€漢', '\0', frozenset([1])]


def _text(rng):
    return ''.join(rng.choice(ALPHA) for _ in range(rng.randint(0, 4)))


def cases(ctx):
    rng = ctx.rng('cases')
    for i in range(ctx.pick(30000, 400000)):
        fmt = FORMATS[i % len(FORMATS)] if rng.random() < 0.5 else rng.choice(['csv', 'csv', 'tsv'])
        nf = rng.randint(1, 3)
        n = rng.choice([0, 1, 2, 3, 4, 5])
        c = {'fmt': fmt, 'source': rng.choice(SOURCES), 'appends': rng.choice([0, 0, 1, 2, 3]), 'prefill': rng.random() < 0.3}
        c['append_header'] = c['appends'] > 0 and rng.random() < 0.2      # append*(write_header=True): the header row is appended too
        if fmt in ('csv', 'tsv'):
            def cell():
                return rng.choice(TYPED) if rng.random() < 0.2 else _text(rng)
            hdr = ['h%d' % j if rng.random() < 0.7 else _text(rng) + 'h%d' % j for j in range(nf)]
            rows = []
            for _ in range(n):
                r = [cell() for _ in range(nf)]
                x = rng.random()
                if x < 0.12:
                    r = r[:rng.randrange(len(r) + 1)]
                elif x < 0.2:
                    r = r + [cell()]
                rows.append(r)
            c['table'] = [hdr] + rows
            c['encoding'] = rng.choice(ENCODINGS)
            args = {}
            if fmt == 'csv' and rng.random() < 0.4:
                args['delimiter'] = rng.choice([',', ';', '\t', '|'])
            if rng.random() < 0.3:
                args['quotechar'] = rng.choice(['"', "'"])
            if rng.random() < 0.5:
                args['quoting'] = rng.choice([0, 1, 2, 3])
            c['csvargs'] = args
            c['write_header'] = rng.random() < 0.8
            c['extra'] = [[[cell() for _ in range(nf)] for _ in range(rng.randint(0, 3))] for _ in range(c['appends'])]
            # errors=: the codec's policy for what the encoding lacks.  The judged text is always representable, so no policy may
            # change anything (chosen by a hash of the table, which leaves the seeded stream of cases as it was)
            h_ = zlib.crc32(repr(c['table']).encode('utf-8', 'backslashreplace'))
            if h_ % 4 == 0:
                c['errors'] = ['strict', 'replace', 'ignore', 'backslashreplace', 'xmlcharrefreplace'][(h_ // 4) % 5]
        elif fmt == 'pickle':
            t = gen.table(rng, nrows=n, nfields=nf, pool=PICKLECELLS, ragged=0.3 if rng.random() < 0.4 else 0)
            if rng.random() < 0.3:
                t = [tuple(r) for r in t]
            c['table'] = t
            c['protocol'] = rng.choice([-1, 0, 1, 2, 3, 4, 5])
            c['write_header'] = rng.random() < 0.8
            c['extra'] = [[[rng.choice(PICKLECELLS) for _ in range(nf)] for _ in range(rng.randint(0, 3))] for _ in range(c['appends'])]
        else:
            n = max(1, n) if fmt != 'jsonarrays' else n
            names = rng.sample(['a', 'b', 'é', 'x y', '0', 'k"q'], nf)
            c['table'] = [names] + [[rng.choice(JSONCELLS) for _ in range(nf)] for _ in range(n)]
            if rng.random() < 0.3 and n:
                r = c['table'][rng.randint(1, n)]
                del r[rng.randrange(len(r)):]
            if rng.random() < 0.25 and n:
                # a row longer than the header: its surplus cells have no field and are not written by tojson
                c['table'][rng.choice([1, rng.randint(1, n)])].extend(rng.choice([['extra'], [None, 1]]))
            c['appends'] = 0
            c['output_header'] = rng.random() < 0.5
            c['jsonargs'] = rng.choice([{}, {}, {'indent': 2}, {'sort_keys': True}, {'ensure_ascii': False}, {'separators': (',', ':')}])
            c['affix'] = rng.random() < 0.15
        yield c
    # one reader view, several write / read cycles on the same target: every read returns what the latest write put there
    # (field names, their order and number, and the rows all change between the writes)
    for i in range(ctx.pick(1500, 20000)):
        fmt = ['csv', 'tsv', 'pickle', 'json', 'jsonl'][i % 5]      # (tojsonarrays has no reader of its own)
        tabs = []
        for j in range(rng.randint(2, 3)):
            nf = rng.randint(1, 4)
            names = rng.sample(['id', 'name', 'city', 'zip', 'score', 'a', 'b'], nf)
            tabs.append([names] + [[rng.choice(['x', 'y', '', 'é', '10', 'a b']) for _ in range(nf)] for _ in range(rng.randint(1, 4))])
        yield {'fmt': fmt, 'cycles': tabs, 'source': rng.choice(['path', 'gz', 'bz2']), 'encoding': rng.choice([None, 'utf-8', 'utf-16-le', 'latin-1']),
               'append_last': rng.random() < 0.3 and fmt in ('csv', 'tsv', 'pickle')}


# ---------------------------------------------------------------------------

def _judge_cycles(case, ctx):
    fmt = case['fmt']
    t = _target(ctx, case['source'], 'cyc')
    kw = {}
    if fmt in ('csv', 'tsv') and case['encoding']:
        kw['encoding'] = case['encoding']
    to = {'csv': petl.tocsv, 'tsv': petl.totsv, 'pickle': petl.topickle, 'json': petl.tojson, 'jsonl': petl.tojson}[fmt]
    frm = {'csv': petl.fromcsv, 'tsv': petl.fromtsv, 'pickle': petl.frompickle, 'json': petl.fromjson, 'jsonl': petl.fromjson}[fmt]
    wkw, rkw = dict(kw), dict(kw)
    if fmt == 'jsonl':
        wkw['lines'] = True
        rkw['lines'] = True
    tabs = copy.deepcopy(case['cycles'])
    try:
        view = None
        for n_, tab in enumerate(tabs):
            exp = [tuple(r) for r in tab]
            if case.get('append_last') and n_ == len(tabs) - 1 and n_ > 0:
                # the last step appends rows (under the previous header) instead of rewriting
                ap = {'csv': petl.appendcsv, 'tsv': petl.appendtsv, 'pickle': petl.appendpickle}[fmt]
                prev = tabs[n_ - 1]
                add = [list(prev[0])] + [(list(r) + [''] * len(prev[0]))[:len(prev[0])] for r in tab[1:]]
                r_ = util.attempt(lambda: ap(add, t, **kw))
                exp = [tuple(r) for r in prev] + [tuple(r) for r in add[1:]]
            else:
                r_ = util.attempt(lambda: to(tab, t, **wkw))
            if isinstance(r_, util.Raised):
                return {'kind': 'exception', 'fn': 'to/append ' + fmt, 'detail': r_.text, 'where': r_.where, 'cycle': n_}
            if view is None:
                view = frm(t, **rkw)
            for who, v_ in (('the view created after the first write', view), ('a fresh view', frm(t, **rkw))):
                got = util.attempt_rows(lambda: v_)
                if isinstance(got, util.Raised):
                    return {'kind': 'exception', 'fn': 'from' + fmt, 'detail': got.text, 'where': got.where, 'cycle': n_, 'reader': who}
                if util.crows(got) != util.crows(exp):
                    return {'kind': 'cycle-read-differs', 'fmt': fmt, 'cycle': n_, 'reader': who, 'expected': exp, 'observed': got}
            if n_ > 0:
                ctx.seen('reader-view-reused-after-a-rewrite')
                ctx.mark_nontrivial()
    finally:
        _cleanup(t)
    return None


def _target(ctx, kind, tag):
    if kind == 'memory':
        return MemorySource()
    ext = {'path': '', 'gz': '.gz', 'bz2': '.bz2'}[kind]
    p = os.path.join(ctx.scratch, 'c15-%d-%s.dat%s' % (os.getpid(), tag, ext))
    if os.path.exists(p):
        os.remove(p)
    return p


def _bytes(t):
    if isinstance(t, MemorySource):
        return t.getvalue() or b''
    if not os.path.exists(t):
        return None
    if t.endswith('.gz'):
        with gzip.open(t, 'rb') as f:
            return f.read()
    if t.endswith('.bz2'):
        with bz2.open(t, 'rb') as f:
            return f.read()
    with open(t, 'rb') as f:
        return f.read()


def _reader(t):
    """a MemorySource that was written to is read back through a new MemorySource over its bytes (documented usage)"""
    if isinstance(t, MemorySource):
        return MemorySource(t.getvalue() or b'')
    return t


def _prefill(t, fmt):
    """a longer table is written to the target first: to* must replace it completely"""
    junk = [['JUNK%d' % i for i in range(4)]] + [['old-content-%d-%d' % (r, c) for c in range(4)] for r in range(12)]
    if fmt in ('csv', 'tsv'):
        petl.tocsv(junk, t)
    elif fmt == 'pickle':
        petl.topickle(junk, t)
    else:
        petl.tojson(junk, t)


def _cleanup(*ts):
    for t in ts:
        if isinstance(t, str) and os.path.exists(t):
            os.remove(t)


def _render(v):
    return '' if v is None else str(v)


def judge(case, ctx):
    fmt = case['fmt']
    ctx.op('fmt:' + fmt)
    ctx.op('source:' + case['source'])
    if 'cycles' in case:
        return _judge_cycles(case, ctx)
    if fmt in ('csv', 'tsv'):
        return _judge_csv(case, ctx)
    if fmt == 'pickle':
        return _judge_pickle(case, ctx)
    return _judge_json(case, ctx)


def _judge_csv(case, ctx):
    fmt = case['fmt']
    table = copy.deepcopy(case['table'])
    enc = case['encoding']
    args = dict(case['csvargs'])
    blocks = copy.deepcopy(case['extra'])              # what each append* call is given (besides the header)
    ah = bool(case.get('append_header')) and bool(blocks)
    extra = [[list(table[0])] + blk for blk in blocks] if ah else blocks      # what each call is expected to add to the file
    if ah:
        ctx.seen('append-with-write_header=True')
    allrows = [list(r) for r in table] + [r for blk in extra for r in blk]
    rendered = [[_render(v) for v in r] for r in allrows]
    text_all = ''.join(c for r in rendered for c in r)
    # restrict to the encodable subset
    use_enc = enc or 'utf-8'      # petl's default (None) follows the locale; the harness runs under UTF-8
    try:
        text_all.encode(use_enc)
    except UnicodeError:
        enc = 'utf-8'
        use_enc = 'utf-8'
    ctx.seen('encoding:%s' % enc)
    if enc is None:
        import locale
        use_enc = locale.getpreferredencoding(False)
        try:
            text_all.encode(use_enc)
        except UnicodeError:
            return None
    dialect = 'excel' if fmt == 'csv' else 'excel-tab'
    dargs = dict(args)
    dargs['dialect'] = dialect
    delim = args.get('delimiter', ',' if fmt == 'csv' else '\t')
    qc = args.get('quotechar', '"')
    if any(delim in c for r in rendered for c in r):
        ctx.seen('cell-with-delimiter')
    if any(qc in c for r in rendered for c in r):
        ctx.seen('cell-with-quotechar')
    for name, ch in (('CRLF', '\r\n'), ('CR', '\r'), ('LF', '\n'), ('NUL', '\0')):
        if ch in text_all:
            ctx.seen('cell-with-' + name)
    nontriv = len(table) > 2 and any((not isinstance(v, str)) or any(ch in _render(v) for ch in (delim, qc, '\r', '\n')) or not _render(v).isascii()
                                    for r in table[1:] for v in r)
    if nontriv:
        ctx.mark_nontrivial()

    # ---- differential oracle: stdlib csv through StringIO
    def stdlib_text(rows):
        buf = io.StringIO(newline='')
        csv.writer(buf, **dargs).writerows(rows)
        return buf.getvalue()
    write_header = case['write_header']
    first = table if write_header else table[1:]
    try:
        want_text = stdlib_text(first + [r for blk in extra for r in blk])
        back = [list(r) for r in csv.reader(io.StringIO(want_text, newline=''), **dargs)]
        lossless = back == [[_render(v) for v in r] for r in (first + [r for blk in extra for r in blk])]
    except (csv.Error, TypeError, ValueError):
        lossless = False
    if not lossless:
        ctx.seen('stdlib-not-lossless-skipped')
        return None
    ctx.seen('quoting:%d-judged' % args.get('quoting', 0))
    out = []
    kw = dict(args)
    if enc is not None:
        kw['encoding'] = enc
    if case.get('errors'):
        kw['errors'] = case['errors']
        ctx.seen('errors=' + case['errors'])
    to = petl.tocsv if fmt == 'csv' else petl.totsv
    ap = petl.appendcsv if fmt == 'csv' else petl.appendtsv
    frm = petl.fromcsv if fmt == 'csv' else petl.fromtsv
    t1 = _target(ctx, case['source'], 'w')
    t2 = _target(ctx, case['source'], 'cat')
    wkw = dict(kw)
    if not write_header:
        wkw['write_header'] = False
        ctx.seen('write_header=False')
    try:
        if case.get('prefill'):
            _prefill(t1, fmt)
            ctx.seen('target-held-older-longer-content')
        r = util.attempt(lambda: to(table, t1, **wkw))
        if isinstance(r, util.Raised):
            return {'kind': 'exception', 'fn': 'to' + fmt, 'detail': r.text, 'where': r.where}
        for blk in blocks:
            r = util.attempt(lambda: ap([table[0]] + blk, t1, **(dict(kw, write_header=True) if ah else kw)))
            if isinstance(r, util.Raised):
                return {'kind': 'exception', 'fn': 'append' + fmt, 'detail': r.text, 'where': r.where}
        # ---- read back
        rkw = dict(kw)
        exp_rows = [tuple(_render(v) for v in r) for r in (first + [r for blk in extra for r in blk])]
        if not write_header:
            rkw['header'] = ['H%d' % i for i in range(len(table[0]))]
            if zlib.crc32(repr(table).encode('utf-8', 'backslashreplace')) % 5 == 0:
                # a header without any field, as a list or a tuple: still exactly one row added on top of what the file holds
                rkw['header'] = [[], ()][len(table) % 2]
                ctx.seen('header-on-read:empty-header')
            exp_rows = [tuple(rkw['header'])] + exp_rows
            ctx.seen('header-on-read')
        got = util.attempt_rows(lambda: frm(_reader(t1), **rkw))
        kind = 'append-roundtrip-differs' if extra else 'roundtrip-differs'
        if isinstance(got, util.Raised):
            out.append({'kind': 'exception', 'fn': 'from' + fmt, 'detail': got.text, 'where': got.where, 'after-append': bool(extra)})
        elif util.crows(got) != util.crows(exp_rows):
            v_ = {'kind': kind, 'expected': exp_rows, 'observed': got, 'args': kw}
            # the file's very first character is a U+FEFF that belongs to the first cell, and it is the only thing that went missing
            e0 = [list(r) for r in exp_rows]
            w0 = 0 if write_header else 1        # the first row of the file (a header given on read is not in the file)
            if len(e0) > w0 and e0[w0] and isinstance(e0[w0][0], str) and e0[w0][0].startswith('\ufeff'):
                e0[w0][0] = e0[w0][0][1:]
                v_['only-the-leading-U+FEFF-of-the-first-cell-is-lost'] = util.crows(got) == util.crows(e0)
            out.append(v_)
        # ---- file text equals what the stdlib writes for the same rows
        b1 = _bytes(t1)
        try:
            txt = b1.decode(use_enc)
            if use_enc in ('utf-16-le',) and txt.startswith('﻿'):
                pass
        except UnicodeError as e:
            txt = None
            out.append({'kind': 'append-bytes-differ' if extra else 'file-not-decodable', 'detail': str(e), 'bytes': repr(b1[:80])})
        if txt is not None and txt != want_text and not out:
            out.append({'kind': 'append-bytes-differ' if extra else 'file-text-differs-from-stdlib-csv', 'expected': repr(want_text[:200]), 'observed': repr(txt[:200])})
        # ---- to* + append* == to*(concatenation), byte for byte (decompressed)
        if extra and not out:
            r = util.attempt(lambda: to([table[0]] + table[1:] + [r for blk in extra for r in blk], t2, **wkw))
            if isinstance(r, util.Raised):
                out.append({'kind': 'exception', 'fn': 'to%s(cat)' % fmt, 'detail': r.text, 'where': r.where})
            else:
                ctx.seen('append-bytes-compared')
                b2 = _bytes(t2)
                if b1 != b2:
                    out.append({'kind': 'append-bytes-differ', 'to+append': repr(b1[:200]), 'to(cat)': repr(b2[:200])})
        bom_only = _differs_only_in_boms(b1, use_enc, want_text) if out else None
    finally:
        _cleanup(t1, t2)
    for o in out:
        o['source'] = case['source']
        o['encoding'] = enc
        o['appends'] = len(extra)
        # the file holds exactly the expected text once byte-order marks are disregarded (one too many in mid-stream, or none at all):
        # what the known findings F13 / F17 are about, and nothing else
        o['differs-only-in-byte-order-marks'] = bom_only
    return out


def _judge_pickle(case, ctx):
    table = copy.deepcopy(case['table'])
    blocks = copy.deepcopy(case['extra'])
    ah = bool(case.get('append_header')) and bool(blocks)
    extra = [[table[0]] + blk for blk in blocks] if ah else blocks      # the header object itself: it is pickled as it is
    if ah:
        ctx.seen('append-with-write_header=True')
    kw = {'protocol': case['protocol']}
    if len(table) > 2:
        ctx.mark_nontrivial()
    wkw = dict(kw)
    if not case['write_header']:
        wkw['write_header'] = False
        ctx.seen('write_header=False')
    t1 = _target(ctx, case['source'], 'w')
    t2 = _target(ctx, case['source'], 'cat')
    out = []
    try:
        if case.get('prefill'):
            _prefill(t1, 'pickle')
            ctx.seen('target-held-older-longer-content')
        r = util.attempt(lambda: petl.topickle(table, t1, **wkw))
        if isinstance(r, util.Raised):
            return {'kind': 'exception', 'fn': 'topickle', 'detail': r.text, 'where': r.where}
        for blk in blocks:
            r = util.attempt(lambda: petl.appendpickle([table[0]] + blk, t1, **(dict(kw, write_header=True) if ah else kw)))
            if isinstance(r, util.Raised):
                return {'kind': 'exception', 'fn': 'appendpickle', 'detail': r.text, 'where': r.where}
        first = list(table) if case['write_header'] else list(table[1:])
        exp = [tuple(r) for r in first + [r for blk in extra for r in blk]]
        got = util.attempt_rows(lambda: petl.frompickle(_reader(t1)))
        if isinstance(got, util.Raised):
            if not exp and 'StopIteration' in got.text or (not exp and got.type in ('EOFError',)):
                pass
            out.append({'kind': 'exception', 'fn': 'frompickle', 'detail': got.text, 'where': got.where})
        elif util.crows(got) != util.crows(exp):
            out.append({'kind': 'append-roundtrip-differs' if extra else 'roundtrip-differs', 'expected': exp, 'observed': got})
        if extra and not out:
            petl.topickle([table[0]] + list(table[1:]) + [r for blk in extra for r in blk], t2, **wkw)
            ctx.seen('append-bytes-compared')
            b1, b2 = _bytes(t1), _bytes(t2)
            if b1 != b2:
                out.append({'kind': 'append-bytes-differ', 'to+append': repr(b1[:200]), 'to(cat)': repr(b2[:200])})
    finally:
        _cleanup(t1, t2)
    return out


def _differs_only_in_boms(data, enc, want_text):
    import sys
    base = {'utf-16': 'utf-16-%s', 'utf-32': 'utf-32-%s'}.get(enc)
    try:
        if base:
            width = 2 if enc == 'utf-16' else 4
            marks = {('utf-16', b'\xff\xfe'): 'le', ('utf-16', b'\xfe\xff'): 'be', ('utf-32', b'\xff\xfe\x00\x00'): 'le', ('utf-32', b'\x00\x00\xfe\xff'): 'be'}
            order = marks.get((enc, data[:width]), 'le' if sys.byteorder == 'little' else 'be')
            txt = data.decode(base % order)
        elif enc == 'utf-8-sig':
            txt = data.decode('utf-8')
        else:
            return False
    except UnicodeError:
        return False
    return txt.replace('\ufeff', '') == want_text.replace('\ufeff', '')


def _jsonify(v):
    """what a value becomes after a JSON round trip"""
    return json.loads(json.dumps(v))


def _judge_json(case, ctx):
    fmt = case['fmt']
    table = copy.deepcopy(case['table'])
    hdr = list(table[0])
    rows = table[1:]
    if len(rows) >= 2:
        ctx.mark_nontrivial()
    kw = dict(case['jsonargs'])
    if 'separators' in kw:
        kw['separators'] = tuple(kw['separators'])
    t1 = _target(ctx, case['source'], 'w')
    out = []
    try:
        if case.get('prefill'):
            _prefill(t1, 'json')
            ctx.seen('target-held-older-longer-content')
        if fmt == 'jsonarrays':
            akw = dict(kw)
            if case['output_header']:
                akw['output_header'] = True
            if case['affix']:
                akw['prefix'], akw['suffix'] = 'callback(', ')'
            r = util.attempt(lambda: petl.tojsonarrays(table, t1, **akw))
            if isinstance(r, util.Raised):
                return {'kind': 'exception', 'fn': 'tojsonarrays', 'detail': r.text, 'where': r.where}
            txt = _bytes(t1).decode('utf-8')
            if case['affix']:
                if not (txt.startswith('callback(') and txt.endswith(')')):
                    return {'kind': 'prefix-suffix-missing', 'text': txt[:100]}
                txt = txt[len('callback('):-1]
            got = json.loads(txt)
            exp = [_jsonify(list(r)) for r in (([hdr] if case['output_header'] else []) + rows)]
            if got != exp:
                out.append({'kind': 'roundtrip-differs', 'fn': 'tojsonarrays', 'expected': exp, 'observed': got})
            return out
        lines = fmt == 'jsonl'
        wkw = dict(kw)
        if lines:
            wkw['lines'] = True
            wkw.pop('indent', None)
        if case['affix'] and not lines:
            # prefix / suffix wrap the document (JSONP style): what lies between them is the same array of objects
            wkw['prefix'], wkw['suffix'] = 'callback(', ');'
            r = util.attempt(lambda: petl.tojson(table, t1, **wkw))
            if isinstance(r, util.Raised):
                return {'kind': 'exception', 'fn': 'tojson', 'detail': r.text, 'where': r.where}
            txt = _bytes(t1).decode('utf-8')
            ctx.seen('tojson-prefix-suffix')
            if not (txt.startswith('callback(') and txt.endswith(');')):
                return {'kind': 'prefix-suffix-missing', 'text': txt[:100]}
            got = json.loads(txt[len('callback('):-2])
            exp = []
            for r in rows:
                sq = list(r)[:len(hdr)] + [None] * (len(hdr) - len(r))
                exp.append({h: _jsonify(v) for h, v in zip(hdr, sq)})
            if got != exp:
                out.append({'kind': 'roundtrip-differs', 'fn': 'tojson(prefix, suffix)', 'expected': exp, 'observed': got})
            return out
        r = util.attempt(lambda: petl.tojson(table, t1, **wkw))
        if isinstance(r, util.Raised):
            return {'kind': 'exception', 'fn': 'tojson', 'detail': r.text, 'where': r.where}
        got = util.attempt_rows(lambda: petl.fromjson(_reader(t1), lines=True) if lines else petl.fromjson(_reader(t1)))
        # dicts() squares rows up to the header's length with None; JSON maps tuples to lists
        exp_hdr = tuple(hdr) if 'sort_keys' not in kw else tuple(sorted(hdr))
        exp = [exp_hdr]
        for r in rows:
            sq = list(r)[:len(hdr)] + [None] * (len(hdr) - len(r))
            d = dict(zip(hdr, sq))
            exp.append(tuple(_jsonify(d[h]) for h in exp_hdr))
        if isinstance(got, util.Raised):
            out.append({'kind': 'exception', 'fn': 'fromjson', 'detail': got.text, 'where': got.where})
        elif util.crows(got) != util.crows(exp):
            out.append({'kind': 'roundtrip-differs', 'fn': 'tojson/fromjson' + ('(lines)' if lines else ''), 'expected': exp, 'observed': got})
        if not out:
            # fromjson's `missing` stands in for keys an object does not have; tojson writes every field of every row, so the
            # same table comes back (a null that was written is a value, not an absent key), with or without an explicit header
            for rkw in ({'missing': 'NA'}, {'missing': 'NA', 'header': list(exp_hdr)}):
                if lines:
                    rkw['lines'] = True
                got2 = util.attempt_rows(lambda: petl.fromjson(_reader(t1), **rkw))
                ctx.seen('fromjson-with-missing')
                if isinstance(got2, util.Raised):
                    out.append({'kind': 'exception', 'fn': 'fromjson(missing=)', 'detail': got2.text, 'where': got2.where})
                elif util.crows(got2) != util.crows(exp):
                    out.append({'kind': 'roundtrip-differs', 'fn': 'tojson/fromjson(%s)' % ', '.join(sorted(rkw)), 'expected': exp, 'observed': got2})
                if out:
                    break
    finally:
        _cleanup(t1)
    return out
