"""C18  Temporary files live exactly as long as something can still read them.

Monitor: an audit hook ledger (tempfile.mkstemp / os.unlink) plus the listing
of a private temp directory, inspected at the quiescent point of every history
(everything released, exceptions dropped, gc.collect()).  Histories: up to 3
iterators created / advanced / abandoned at every point, in sequential and
interleaved order, with the view released first / last / in between, source
failures at any row, repeated passes, cache on/off, every buffersize.
While an object is still referenced it must keep delivering the right rows.
"""
from __future__ import annotations

import gc
import itertools
import os
from collections import Counter

import petl

from petlmon import probes, util
from petlmon.probes import InjectedFault

ID = 'C18'
LEVEL = 'fault_enumeration'
RULE = ('cases = histories: (target operator, nrows, buffersize, cache, source fail point / failing pass, step list) where steps are '
        'iter(i) / next(i, k) / drop(i) / dropview; enumerated: sort with nrows 0..3 (quick) / 0..5 (thorough) x every buffersize 1..nrows+1 '
        'x cache x up to 2 (quick) / 3 (thorough) iterators abandoned after every k x sequential and interleaved creation x 3 release orders '
        'x fail point; one representative of each sort-backed family with buffersize 1; fromdicts(generator) with abandonment at every '
        'point, two iterators and a generator raising midway. Non-trivial: at least one temp file was created and at least one iterator '
        'was abandoned before exhaustion or the source failed. Distinct = SHA-1 of the case.')
ASSUMPTIONS = ['reference counting plus gc.collect() reaches quiescence', 'the harness drops exception objects and tracebacks before the quiescence check']
TARGETS = ['sort', 'join', 'complement', 'distinct', 'aggregate', 'pivot', 'mergesort', 'fromdicts']
REQUIRED = (['target:' + t for t in TARGETS] + ['files-created', 'files-removed', 'iterator-outlived-view', 'abandoned-mid-iteration',
            'source-failed-midway', 'chunk-write-failed-midway', 'complete-pass-after-a-failed-pass', 'pass-from-file-cache', 'cache-cleared-under-live-iterator', 'three-iterators', 'view-released-first', 'cache-off', 'quiescent-points-checked', 'descending-sort', 'fromdicts:explicit-header', 'fromdicts:rows-with-a-shared-cell-object', 'table-with-an-empty-row', 'whole-row-sort-of-mixed-type-rows'])
EXHAUSTIVE = {'quick': False, 'thorough': False}   # the enumerated families are complete within their bounds, but a seeded random family is judged too

_audit = None


def setup(ctx):
    global _audit
    _audit = probes.TempAudit()
    _audit.__enter__()
    os.makedirs(os.path.join(_audit.dir, 'sub'), exist_ok=True)


def teardown(ctx):
    if _audit is not None:
        _audit.__exit__(None, None, None)


# ---------------------------------------------------------------------------
# history generation

def _histories(m, ks, family, release):
    """step lists for m iterators abandoned after ks[i] items (header counts)"""
    steps = []
    if family == 'seq':
        for i in range(m):
            steps.append(('iter', i))
            steps.append(('next', i, ks[i]))
            if release == 'iters-first':
                steps.append(('drop', i))
        if release == 'view-first':
            steps.append(('dropview',))
            for i in range(m):
                steps.append(('drop', i))
        elif release == 'iters-first':
            steps.append(('dropview',))
        else:
            for i in range(m):
                steps.append(('drop', i))
                if i == 0:
                    steps.append(('dropview',))
    else:
        for i in range(m):
            steps.append(('iter', i))
        left = list(ks)
        while any(left):
            for i in range(m):
                if left[i]:
                    steps.append(('next', i, 1))
                    left[i] -= 1
        if release == 'view-first':
            steps.append(('dropview',))
            # an iterator that outlives its view must still deliver everything
            for i in range(m):
                steps.append(('next', i, 'all'))
                steps.append(('drop', i))
        elif release == 'iters-first':
            for i in range(m):
                steps.append(('drop', i))
            steps.append(('dropview',))
        else:
            for i in range(m):
                if i == 1:
                    steps.append(('dropview',))
                steps.append(('drop', i))
    return [list(s) for s in steps]


def cases(ctx):
    maxn, maxm = ctx.pick(3, 5), ctx.pick(2, 3)
    for n in range(0, maxn + 1):
        for bs in range(1, n + 2):
            for cache in (True, False):
                for m in range(1, maxm + 1):
                    krange = range(0, n + 3) if (m < 3 or n <= 3) else (0, 1, 2, n, n + 2)
                    for ks in itertools.product(krange, repeat=m):
                        for family in ('seq', 'inter'):
                            for release in ('view-first', 'iters-first', 'mixed'):
                                if m == 1 and release == 'mixed':
                                    continue
                                yield {'target': 'sort', 'n': n, 'buffersize': bs, 'cache': cache, 'fail': None, 'failpass': None,
                                       'steps': _histories(m, ks, family, release)}
                                if m <= 2 and release != 'mixed':
                                    # descending sorts merge their chunks (first pass and cache-served passes) through other code
                                    yield {'target': 'sort', 'n': n, 'buffersize': bs, 'cache': cache, 'fail': None, 'failpass': None,
                                           'reverse': True, 'steps': _histories(m, ks, family, release)}
                # late start: A is created before any cache exists but advanced only after B has filled the cache
                # and C (served from that cache) is part-way; A's fresh pass (or an explicit clearcache) replaces
                # the cache under C, which must still deliver everything
                for kc in range(0, n + 3):
                    for ja in (1, 2, 'all', 'clearcache'):
                        steps = [['iter', 0], ['iter', 1], ['next', 1, 'all'], ['iter', 2], ['next', 2, kc]]
                        steps.append(['clearcache'] if ja == 'clearcache' else ['next', 0, ja])
                        for tail in (0, 1):
                            t = list(steps)
                            if tail:
                                t.append(['dropview'])
                            t += [['next', 2, 'all'], ['iter', 3], ['next', 3, 'all'], ['next', 0, 'all']]
                            yield {'target': 'sort', 'n': n, 'buffersize': bs, 'cache': cache, 'fail': None, 'failpass': None, 'steps': t}
                # the pass that filled the cache is still running: A (fresh, part-way) filled the cache, C is served from it; the
                # cache is then replaced (B, created before any cache existed, starts its own fresh pass; or clearcache) and A
                # runs to its end or is abandoned.  C reads A's chunk files: they must outlive A's own pass
                for ka in (2, 3):
                    for kc in (0, 1, 2):
                        for how in ('late-pass', 'clearcache'):
                            for fin in ('all', 'drop'):
                                t = [['iter', 0], ['iter', 1], ['next', 0, ka], ['iter', 2], ['next', 2, kc]]
                                t.append(['next', 1, 1] if how == 'late-pass' else ['clearcache'])
                                t.append(['next', 0, 'all'] if fin == 'all' else ['drop', 0])
                                t += [['next', 2, 'all'], ['next', 1, 'all'], ['iter', 3], ['next', 3, 'all']]
                                yield {'target': 'sort', 'n': n, 'buffersize': bs, 'cache': cache, 'fail': None, 'failpass': None, 'steps': t}
                # source failures: every fail point, failing on every pass or only the first
                for fail in range(0, n + 2):
                    for failpass in (None, 1):
                        for ks in itertools.product((1, n + 2), repeat=2):
                            for family in ('seq', 'inter'):
                                yield {'target': 'sort', 'n': n, 'buffersize': bs, 'cache': cache, 'fail': fail, 'failpass': failpass,
                                       'steps': _histories(2, ks, family, 'iters-first')}
                                yield {'target': 'sort', 'n': n, 'buffersize': bs, 'cache': cache, 'fail': fail, 'failpass': failpass,
                                       'steps': _histories(2, ks, family, 'view-first')}
    # a transient source failure in the second or a later chunk, then more passes over the same (cached) view
    for n in range(2, maxn + 3):
        for bs in range(1, n):
            for fail in range(bs + 1, n + 2):
                for cache in (True, False):
                    for k0 in (1, 2, n + 2):
                        steps = [['iter', 0], ['next', 0, k0], ['iter', 1], ['next', 1, 'all'], ['iter', 2], ['next', 2, 'all'], ['next', 0, 'all']]
                        yield {'target': 'sort', 'n': n, 'buffersize': bs, 'cache': cache, 'fail': fail, 'failpass': 1, 'steps': steps}
    # a completely empty row in the table (its key cell is missing: it sorts first, or last when descending) travels through the
    # chunk files like any other row
    for n in range(1, maxn + 2):
        for bs in range(1, n + 2):
            for cache in (True, False):
                for rev in (False, True):
                    for at in sorted({0, n // 2, n}):
                        yield {'target': 'sort', 'n': n, 'buffersize': bs, 'cache': cache, 'fail': None, 'failpass': None, 'reverse': rev,
                               'emptyrow': at, 'steps': _histories(2, (n + 4, n + 4), 'seq', 'iters-first')}
    # whole-row sorts (key=None) of rows with None, text and numbers in one column and rows longer than the header: the passes served
    # from chunk files order them exactly as the first pass did
    for n in range(2, maxn + 3):
        for bs in range(1, n + 1):
            for cache in (True, False):
                for rev in (False, True):
                    for release in ('iters-first', 'view-first'):
                        c = {'target': 'sort', 'n': n, 'buffersize': bs, 'cache': cache, 'fail': None, 'failpass': None, 'lexical': True, 'mixed': True,
                             'steps': _histories(3, (n + 4, n + 4, n + 4), 'seq', release)}
                        if rev:
                            c['reverse'] = True
                        yield c
    # a chunk *write* that fails part-way: a cell that cannot be pickled sits at row `bad`; whatever was created must be gone
    # once everything is released
    for tgt in ('sort', 'distinct', 'mergesort', 'aggregate'):
        for n in range(1, maxn + 2):
            for bs in range(1, n + 1):
                for bad in range(0, n):
                    for cache in (True, False):
                        yield {'target': tgt, 'n': n, 'buffersize': bs, 'cache': cache, 'fail': None, 'failpass': None, 'unpicklable': bad,
                               'steps': [['iter', 0], ['next', 0, 'all'], ['iter', 1], ['next', 1, 2], ['drop', 0], ['dropview'], ['drop', 1]]}
    # sort-backed families with buffersize 1
    for tgt in ('join', 'complement', 'distinct', 'aggregate', 'pivot', 'mergesort'):
        for n in (0, 1, 3):
            for cache in (True, False):
                for m in (1, 2):
                    for ks in itertools.product((0, 1, 2, n + 3), repeat=m):
                        for family in ('seq', 'inter'):
                            for release in ('view-first', 'iters-first'):
                                yield {'target': tgt, 'n': n, 'buffersize': 1, 'cache': cache, 'fail': None, 'failpass': None,
                                       'steps': _histories(m, ks, family, release)}
                for fail in range(0, n + 2):
                    yield {'target': tgt, 'n': n, 'buffersize': 1, 'cache': cache, 'fail': fail, 'failpass': 1,
                           'steps': _histories(2, (n + 3, n + 3), 'seq', 'iters-first')}
    # fromdicts on a generator
    for n in range(0, ctx.pick(4, 6)):
        for m in (1, 2, 3):
            if m == 3 and n > 3:
                continue
            for ks in itertools.product(range(0, n + 3), repeat=m):
                for family in ('seq', 'inter'):
                    for release in ('view-first', 'iters-first'):
                        yield {'target': 'fromdicts', 'n': n, 'buffersize': None, 'cache': True, 'fail': None, 'failpass': None,
                               'steps': _histories(m, ks, family, release)}
                        if m >= 2 and family == 'seq' and release == 'iters-first':
                            yield {'target': 'fromdicts', 'n': n, 'buffersize': None, 'cache': True, 'fail': None, 'failpass': None,
                                   'steps': _histories(m, ks, family, release), 'header': True, 'sparse': True}
                        if m >= 2:
                            # with an explicit header the view hands the caller's generator itself to its iterators
                            yield {'target': 'fromdicts', 'n': n, 'buffersize': None, 'cache': True, 'fail': None, 'failpass': None,
                                   'steps': _histories(m, ks, family, release), 'header': True}
        # a lagging reader: iterator 0 is a rows ahead, iterator 1 has read b < a rows back from the spill file, then 0 pulls c more
        # from the generator (the spill file is shared: its position is wherever the last reader or writer left it), then both finish
        for a in range(2, n + 2):
            for b in range(1, a):
                for c in (1, 2):
                    for hdr_given in (False, True):
                        steps = [['iter', 0], ['next', 0, a], ['iter', 1], ['next', 1, b], ['next', 0, c], ['next', 1, 'all'], ['next', 0, 'all'],
                                 ['iter', 2], ['next', 2, 'all'], ['dropview'], ['drop', 0], ['drop', 1], ['drop', 2]]
                        yield {'target': 'fromdicts', 'n': n, 'buffersize': None, 'cache': True, 'fail': None, 'failpass': None, 'steps': steps,
                               'header': hdr_given}
                        if hdr_given:
                            yield {'target': 'fromdicts', 'n': n, 'buffersize': None, 'cache': True, 'fail': None, 'failpass': None, 'steps': steps,
                                   'header': True, 'sparse': True}
        for fail in range(0, n + 1):
            for ks in itertools.product((1, n + 2), repeat=2):
                yield {'target': 'fromdicts', 'n': n, 'buffersize': None, 'cache': True, 'fail': fail, 'failpass': 1,
                       'steps': _histories(2, ks, 'seq', 'iters-first')}
    # seeded random longer histories (3 iterators, 3-4 passes)
    rng = ctx.rng('random')
    for i in range(ctx.pick(1500, 40000)):
        n = rng.randint(0, 6)
        tgt = rng.choice(['sort', 'sort', 'sort', 'fromdicts', 'join', 'distinct', 'aggregate', 'mergesort', 'complement', 'pivot'])
        steps = []
        live = []
        viewdropped = False
        nxt = 0
        for _ in range(rng.randint(3, 12)):
            r = rng.random()
            if (r < 0.3 or not live) and not viewdropped and nxt < 4:
                steps.append(['iter', nxt])
                live.append(nxt)
                nxt += 1
            elif r < 0.75 and live:
                steps.append(['next', rng.choice(live), rng.choice([1, 1, 2, 3, 'all'])])
            elif r < 0.9 and live:
                j = rng.choice(live)
                live.remove(j)
                steps.append(['drop', j])
            elif not viewdropped:
                steps.append(['dropview'])
                viewdropped = True
        fail = rng.choice([None, None, None] + list(range(0, n + 2)))
        yield {'target': tgt, 'n': n, 'buffersize': None if tgt == 'fromdicts' else rng.randint(1, n + 1), 'cache': rng.random() < 0.6,
               'fail': fail, 'failpass': rng.choice([None, 1, 2]) if fail is not None else None, 'steps': steps,
               'reverse': tgt in ('sort', 'mergesort') and rng.random() < 0.4}


# ---------------------------------------------------------------------------

def _source_rows(n, mixed=False):
    # equal keys of different numeric types (1 / 1.0, 3 / 3.0) in rows that land in different chunks, and row labels that fall
    # while the row number rises: among rows with equal keys the arrival order is then the reverse of the rows' own order, so a
    # chunk merge that breaks ties by anything but chunk order (or does not see 1 and 1.0 as a tie) yields another sequence
    # than the in-memory sort
    keys = [3, 1, 2, 1.0, 3.0, 2, 1]
    if mixed:
        # None, text and numbers in the key column, and a row longer than the header: what a whole-row (key=None) sort has to order
        keys = [3, None, 'b', 1, 3, None, 2]
        return [['k', 'v', 'id']] + [[keys[i % len(keys)], 'v%d' % (i % 2), 'r%d' % (40 - i)] + (['extra', i % 2] if i % 3 == 2 else []) for i in range(n)]
    return [['k', 'v', 'id']] + [[keys[i % len(keys)], 'v%d' % (i % 2), 'r%d' % (40 - i)] for i in range(n)]


def _build(case, rows, fail, failpass, kw):
    """-> (view, expected rows or None when the reference is the fault-free twin)"""
    tgt = case['target']
    src = probes.FailingSource(rows, fail_at=fail, only_pass=failpass) if fail is not None else [list(r) for r in rows]
    other = [['k', 'w'], [1, 'x'], [2, 'y'], [2, 'z'], [4, 'q']]
    rev = {'reverse': True} if case.get('reverse') else {}
    if tgt == 'sort' and case.get('lexical'):
        return petl.sort(src, **rev, **kw)        # key=None: ordered by the whole row
    if tgt == 'sort':
        return petl.sort(src, 'k', **rev, **kw)
    if tgt == 'join':
        return petl.join(src, other, key='k', **kw)
    if tgt == 'complement':
        return petl.complement(src, [['k', 'v', 'id'], [3, 'v0', 'r40'], [9, 'v', 'r']], **kw)
    if tgt == 'distinct':
        return petl.distinct(src, 'k', **kw)
    if tgt == 'aggregate':
        return petl.aggregate(src, 'k', len, **kw)
    if tgt == 'pivot':
        return petl.pivot(src, 'k', 'v', 'id', len, **kw)
    if tgt == 'mergesort':
        return petl.mergesort(src, other, key='k', **rev, **kw)
    raise KeyError(tgt)


def _dictgen(rows, fail):
    hdr = rows[0]
    for i, r in enumerate(rows[1:]):
        if fail is not None and i == fail:
            raise InjectedFault('generator failed at item %d' % i)
        yield dict(zip(hdr, r))


def judge(case, ctx):
    tgt, n = case['target'], case['n']
    ctx.op('target:' + tgt)
    rows = _source_rows(n, mixed=bool(case.get('mixed')))
    if case.get('lexical'):
        ctx.seen('whole-row-sort-of-mixed-type-rows')
    if case.get('emptyrow') is not None:
        rows.insert(1 + case['emptyrow'], [])
        ctx.seen('table-with-an-empty-row')
    fail, failpass = case['fail'], case['failpass']
    unpicklable = case.get('unpicklable')
    if unpicklable is not None:
        rows[1 + unpicklable][1] = (lambda: None)         # cannot be pickled: the chunk write fails at this row
        ctx.seen('chunk-write-failed-midway')
    kw = {}
    if case.get('reverse'):
        ctx.seen('descending-sort')
    if tgt != 'fromdicts':
        kw = {'buffersize': case['buffersize'], 'cache': case['cache']}
        if not case['cache']:
            ctx.seen('cache-off')
    # the fault-free solo sequence (reference): same operator, default in-memory strategy, fresh view
    sparse = bool(case.get('sparse'))
    if tgt == 'fromdicts' and sparse:
        # records that carry the key only: the other two cells of every row are the one `missing` object (a replayed row whose
        # cells share an object is where a pickle memo kept across rows shows)
        ctx.seen('fromdicts:rows-with-a-shared-cell-object')
        rows = [rows[0]] + [[r[0], 'NA', 'NA'] if i % 2 else list(r) for i, r in enumerate(rows[1:])]
    if tgt == 'fromdicts':
        solo = [tuple(rows[0])] + [tuple(r) for r in rows[1:]]
    else:
        solo = util.rows_of(_build(case, rows, None, None, {}))
    judge_rows = unpicklable is None
    c0, r0 = len(_audit.created), len(_audit.removed)
    out = []
    if tgt == 'fromdicts':
        if case.get('header'):
            ctx.seen('fromdicts:explicit-header')
        if sparse:
            def gen_(rows=rows, fail=fail):
                for i, d in enumerate(_dictgen(rows, fail)):
                    yield {'k': d['k']} if i % 2 else d
            view = petl.fromdicts(gen_(), header=rows[0], missing='NA')
        else:
            view = petl.fromdicts(_dictgen(rows, fail), header=rows[0] if (n == 0 or fail == 0 or case.get('header')) else None)
    else:
        view = _build(case, rows, fail, failpass, kw)
    its = {}
    got = {}
    dead = set()
    failed = False
    abandoned = False
    for st in case['steps']:
        op = st[0]
        if op == 'iter':
            if view is None:
                continue
            its[st[1]] = iter(view)
            got[st[1]] = []
        elif op == 'next':
            i = st[1]
            if i not in its or i in dead:
                continue
            k = st[2]
            cnt = 0
            while k == 'all' or cnt < k:
                try:
                    r = next(its[i])
                except StopIteration:
                    dead.add(i)
                    # an iterator that ends normally has delivered the whole table, also when some *other* pass hit a source
                    # failure (a partially filled cache must never be replayed as if it were complete).  fromdicts on a
                    # generator that raised is exempt: the one-shot generator is dead afterwards by construction.
                    if judge_rows and (fail is None or tgt != 'fromdicts') and [tuple(x) for x in got[i]] != solo:
                        out.append({'kind': 'iterator-ended-with-wrong-rows', 'iterator': i, 'expected': solo, 'observed': got[i],
                                    'after-a-source-failure': failed})
                    elif failed:
                        ctx.seen('complete-pass-after-a-failed-pass')
                    break
                except InjectedFault:
                    # the injected source failure: expected, this iterator is finished
                    dead.add(i)
                    failed = True
                    if fail is None:
                        out.append({'kind': 'injected-fault-without-injection'})
                    break
                except Exception as e:  # noqa: anything else is the observation (e.g. a chunk file unlinked too early)
                    dead.add(i)
                    if unpicklable is not None:
                        failed = True        # the injected write fault; only the quiescent-point verdict applies
                        del e
                        break
                    out.append({'kind': 'live-iterator-failed', 'iterator': i, 'detail': '%s: %s' % (type(e).__name__, e),
                                'delivered': list(got[i]), 'view-released': view is None})
                    del e
                    break
                got[i].append(tuple(r))
                cnt += 1
                if len(got[i]) > len(solo) + 3:
                    dead.add(i)
                    out.append({'kind': 'iterator-runs-past-the-end', 'iterator': i, 'observed': got[i]})
                    break
            if judge_rows and (fail is None or tgt != 'fromdicts') and not any(o['kind'].startswith('iterator') or o['kind'].startswith('live') for o in out):
                if [tuple(x) for x in got[i]] != solo[:len(got[i])]:
                    out.append({'kind': 'iterator-delivered-wrong-rows', 'iterator': i, 'expected-prefix-of': solo, 'observed': got[i],
                                'view-released': view is None})
            if view is None and i in its:
                ctx.seen('iterator-outlived-view')
        elif op == 'drop':
            i = st[1]
            if i in its:
                if i not in dead and len(got[i]) < len(solo):
                    abandoned = True
                    ctx.seen('abandoned-mid-iteration')
                del its[i]
        elif op == 'clearcache':
            if view is not None and hasattr(view, 'clearcache'):
                view.clearcache()
                ctx.seen('cache-cleared-under-live-iterator')
        elif op == 'dropview':
            if view is not None and its:
                ctx.seen('view-released-first')
            view = None
        if len(its) >= 3:
            ctx.seen('three-iterators')
    if tgt == 'sort' and view is not None and getattr(view, '_filecache', None) is not None and len(case['steps']) > 3:
        ctx.seen('pass-from-file-cache')
    # ---- quiescent point: release everything, drop frames, collect
    its.clear()
    view = None
    gc.collect()
    ctx.seen('quiescent-points-checked')
    created = _audit.created[c0:]
    removed = _audit.removed[r0:]
    ctx.seen('files-created', len(created))
    ctx.seen('files-removed', len(removed))
    if failed:
        ctx.seen('source-failed-midway')
    if created and (abandoned or failed):
        ctx.mark_nontrivial()
    left_ledger = sorted(set(created) - set(removed))
    left_dir = [p for p in _audit.listing()]
    if left_ledger or left_dir:
        out.append({'kind': 'temp-file-leaked', 'ledger-live': [os.path.basename(p) for p in left_ledger],
                    'directory': [os.path.basename(p) for p in left_dir], 'created': len(created), 'removed': len(removed)})
        for p in left_dir:          # do not let one leak poison the following cases
            try:
                os.remove(p)
            except OSError:
                pass
    rc = Counter(removed)
    twice = [os.path.basename(p) for p, c in rc.items() if c > 1 and p in set(created)]
    if twice:
        out.append({'kind': 'temp-file-removed-twice', 'files': twice})
    return out[:4]
