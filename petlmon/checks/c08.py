"""C08  Set operations obey multiset algebra; hash variants agree.

Oracle: collections.Counter arithmetic on the input rows (Python equality of
row tuples, which is what both the merge and the hash implementations use),
plus: every output row is, cell for cell and type for type, a row of `a`;
hash variants emit a subsequence of `a`; complement + intersection reassemble a.
"""
from __future__ import annotations

import copy
import itertools
from collections import Counter

import petl

from petlmon import gen, util

ID = 'C08'
LEVEL = 'exploration'
RULE = ('cases = (a, b, strict, presorted, b-field permutation, row container types); all pairs of row sequences of length <= 3 '
        'over 3 distinct rows (exhaustive part, both tiers) + seeded random rectangular tables of 0-6 rows x 1-3 fields over a '
        '4-value pool so duplicates on both sides dominate; every case runs complement, intersection, diff, recordcomplement, '
        'recorddiff, hashcomplement, hashintersection. Non-trivial: some row occurs on both sides with different counts, or '
        'duplicates exist on one side only. Distinct = SHA-1 of the case.')
ASSUMPTIONS = ['rectangular tables with hashable cells (property domain)',
               'row equality is Python == on row tuples (1 == 1.0 == True)']
REQUIRED = ['views-read-twice', 'field-labels-that-are-valid-positions', 'inputs-are-petl-views', 'data-row-equal-to-a-header', 'dup-only-in-a', 'dup-only-in-b', 'dup-both-different-counts', 'b-exhausted-first', 'a-exhausted-first',
            'strict-with-dup-in-a', 'a-empty', 'b-empty', 'presorted', 'permuted-b-header', 'list-vs-tuple-rows']
EXHAUSTIVE = {'quick': False, 'thorough': False}

CELLS = [None, 1, 1.0, True, 2, 'a', b'a', 'b', (1, 2), gen.D(2020, 1, 1), 0, False, '']
# pairs of values that are different (not ==, so never the same row) but that an ordering could be tempted to rank together: a date
# and the datetime of its midnight, text and bytes of the same letters, a time of day and a datetime, the empty values
NEIGHBOURS = [(gen.D(2020, 1, 1), gen.DT(2020, 1, 1, 0, 0)), ('a', b'a'), ('', b''), (gen.T(0, 0), gen.DT(2020, 1, 1, 0, 0)), (None, ''),
              (gen.D(2020, 1, 1), '2020-01-01'), ((1, 2), (1, 2.5)), (gen.DT(2020, 1, 1, 12, 30), gen.D(2020, 1, 1)), (1, '1')]


def _battery_rows():
    R = [(1, 'x'), (None, 'y'), ('a', 2)]
    seqs = [s for n in range(0, 4) for s in itertools.product(range(3), repeat=n)]
    for sa in seqs:
        for sb in seqs:
            yield [R[i] for i in sa], [R[i] for i in sb]


def cases(ctx):
    for ra, rb in _battery_rows():
        for strict in (False, True):
            yield {'a': [['f0', 'f1']] + [list(r) for r in ra], 'b': [['f0', 'f1']] + [list(r) for r in rb],
                   'strict': strict, 'presorted': False, 'perm': None, 'tuples': (False, False)}
    rng = ctx.rng('random')
    for i in range(ctx.pick(40000, 600000)):
        nf = rng.randint(1, 3) if rng.random() < 0.85 else rng.randint(4, 5)
        pool = rng.sample(CELLS, 4)
        if i % 6 == 0:
            p1, p2 = rng.sample(NEIGHBOURS, 2)
            pool = list(p1) + (list(p2) if i % 12 == 0 else [])
        if nf > 1 and rng.random() < 0.5:
            rowpool = [[rng.choice(pool) for _ in range(nf)] for _ in range(3)]
        else:
            rowpool = None

        def rows(n):
            if rowpool is not None:
                return [list(rng.choice(rowpool)) for _ in range(n)]
            return [[rng.choice(pool) for _ in range(nf)] for _ in range(n)]
        hdr = gen.fieldnames(nf)
        intlabels = False
        if nf >= 2 and rng.random() < 0.1:
            # field labels that are ints / bools and would be valid positions, but not their own (what pivot or transpose produce):
            # complement / intersection / diff ignore field names altogether
            intlabels = True
            lab = list(range(nf))
            while lab == list(range(nf)):
                rng.shuffle(lab)
            hdr = rng.choice([lab, ['k'] + list(range(nf - 1))] + ([['k'] + [False, True][:nf - 1]] if nf <= 3 else []))
        a = [list(hdr)] + rows(rng.choice([0, 1, 2, 3, 4, 5, 6]))
        b = [list(hdr)] + rows(rng.choice([0, 1, 2, 3, 4, 5, 6]))
        perm = None
        if nf > 1 and rng.random() < 0.4 and not intlabels:
            perm = list(range(nf))
            rng.shuffle(perm)
        # a data row equal to a header row (a repeated header line in concatenated files) is a row like any other
        if rng.random() < 0.12:
            for t, other in ((a, b), (b, a)):
                for _ in range(rng.choice([0, 1, 1, 2])):
                    t.insert(rng.randint(1, len(t)), list(other[0]))
        widths_differ = False
        if nf >= 2 and rng.random() < 0.1:
            # two rectangular tables of different widths: rows are compared as they are (a row of b never equals a longer or a
            # shorter row of a, whatever a trailing None might suggest)
            widths_differ = True
            perm = None
            cut_ = rng.randint(1, nf - 1)
            if rng.random() < 0.5:
                b = [r[:cut_] for r in b]
            else:
                a = [r[:cut_] for r in a]
            for t_ in (a, b):
                for r_ in t_[1:]:
                    if rng.random() < 0.4 and len(r_) > 1:
                        r_[-1] = None
        presorted = rng.random() < 0.3
        # the inputs may themselves be petl views of any kind (a descending or keyed sort, a pass-through, ...)
        wrap = (None, None) if (presorted or rng.random() < 0.75) else (rng.choice(WRAPS), rng.choice(WRAPS))
        yield {'a': a, 'b': b, 'strict': rng.random() < 0.4, 'presorted': presorted, 'perm': perm,
               'tuples': (rng.random() < 0.5, rng.random() < 0.5), 'wrap': wrap,
               'buffersize': None if (presorted or rng.random() < 0.88) else rng.choice([1, 1, 2, 3]),
               'method': rng.random() < 0.2,       # etl.wrap(a).complement(b) etc.: the fluent form is the same operator
               'widths_differ': widths_differ, 'intlabels': intlabels}


def _cnt(rows):
    return Counter(tuple(r) for r in rows)


def _subseq(sub, seq):
    it = iter(seq)
    return all(any(x == y for y in it) for x in sub)


from petl.util.materialise import cache as _petl_cache  # noqa: E402
WRAPS = [None, 'sort-reverse', 'sort-last-field', 'sort-reverse-chunked', 'sort', 'cat', 'cache', 'wrap']


def _container(table, as_tuples, wrap=None):
    t = copy.deepcopy(table)
    if as_tuples:
        t = [tuple(t[0])] + [tuple(r) for r in t[1:]]
    if wrap == 'sort-reverse':
        return petl.sort(t, reverse=True)
    if wrap == 'sort-reverse-chunked':
        return petl.sort(t, reverse=True, buffersize=2)
    if wrap == 'sort-last-field':
        return petl.sort(t, len(t[0]) - 1, reverse=True)
    if wrap == 'sort':
        return petl.sort(t)
    if wrap == 'cat':
        return petl.cat(t)
    if wrap == 'cache':
        return _petl_cache(t)
    if wrap == 'wrap':
        return petl.wrap(t)
    return t


def judge(case, ctx):
    a0, b0, strict = case['a'], case['b'], case['strict']
    ra, rb = [tuple(r) for r in a0[1:]], [tuple(r) for r in b0[1:]]
    ca, cb = _cnt(ra), _cnt(rb)
    # --- tallies
    if not ra:
        ctx.seen('a-empty')
    if not rb:
        ctx.seen('b-empty')
    nontriv = False
    if any(v > 1 and cb.get(k, 0) == 0 for k, v in ca.items()):
        ctx.seen('dup-only-in-a')
        nontriv = True
    if any(v > 1 and ca.get(k, 0) == 0 for k, v in cb.items()):
        ctx.seen('dup-only-in-b')
        nontriv = True
    if any(k in cb and cb[k] != v and (v > 1 or cb[k] > 1) for k, v in ca.items()):
        ctx.seen('dup-both-different-counts')
        nontriv = True
    if strict and any(v > 1 for v in ca.values()):
        ctx.seen('strict-with-dup-in-a')
    if ra and rb:
        sa = sorted(ra, key=util.model_key)
        sb = sorted(rb, key=util.model_key)
        c = util.model_cmp(sa[-1], sb[-1])
        if c > 0:
            ctx.seen('b-exhausted-first')
        elif c < 0:
            ctx.seen('a-exhausted-first')
    if nontriv:
        ctx.mark_nontrivial()
    if case['tuples'][0] != case['tuples'][1] and ra and rb:
        ctx.seen('list-vs-tuple-rows')

    # --- expectations (Counter arithmetic)
    if strict:
        exp_comp = Counter({k: v for k, v in ca.items() if k not in cb})
        exp_comp_ba = Counter({k: v for k, v in cb.items() if k not in ca})
    else:
        exp_comp = ca - cb
        exp_comp_ba = cb - ca
    exp_int = ca & cb
    hdr_a = tuple(a0[0])
    hdr_b = tuple(b0[0])
    arows_strict = Counter(util.crow(r) for r in ra)
    brows_strict = Counter(util.crow(r) for r in rb)
    out = []

    wa, wb = case.get('wrap') or (None, None)
    if wa or wb:
        ctx.seen('inputs-are-petl-views')
    if hdr_b in ca or hdr_a in cb or hdr_a in ca or hdr_b in cb:
        ctx.seen('data-row-equal-to-a-header')

    def plain():
        return _container(a0, case['tuples'][0], wa), _container(b0, case['tuples'][1], wb)

    def tables():
        a = _container(a0, case['tuples'][0], wa)
        b = _container(b0, case['tuples'][1], wb)
        if case['presorted']:
            a = [a[0]] + sorted(a[1:], key=lambda r: util.model_key(tuple(r)))
            b = [b[0]] + sorted(b[1:], key=lambda r: util.model_key(tuple(r)))
        return a, b

    def check(name, build, exp_hdr, exp_counter, source_strict, order_of=None):
        got = util.attempt_rows_twice(build)
        ctx.seen('executions')
        if isinstance(got, util.Raised):
            out.append({'kind': 'exception', 'fn': name, 'detail': got.text, 'where': got.where})
            return None
        if not got or util.crow(got[0]) != util.crow(exp_hdr):
            out.append({'kind': 'header-differs', 'fn': name, 'expected': exp_hdr, 'observed': got[:1]})
            return None
        body = got[1:]
        if _cnt(body) != exp_counter:
            out.append({'kind': 'multiset-differs', 'fn': name, 'expected': sorted(exp_counter.elements(), key=util.model_key), 'observed': body})
            return None
        gs = Counter(util.crow(r) for r in body)
        if any(v > source_strict.get(k, 0) for k, v in gs.items()):
            out.append({'kind': 'output-row-is-not-a-row-of-its-source', 'fn': name, 'observed': body})
        if order_of is not None and not _subseq(body, order_of):
            out.append({'kind': 'not-in-source-order', 'fn': name, 'observed': body, 'source': order_of})
        return body

    pk = {'presorted': True} if case['presorted'] else {}
    if case.get('buffersize') is not None:
        # the sorts behind the operators go through chunk files (the same multisets are due)
        pk = {'buffersize': case['buffersize']}
        if max(len(ra), len(rb)) > 2 * case['buffersize']:
            ctx.seen('sorts-through-3+-chunk-files')
    if case['presorted']:
        ctx.seen('presorted')
    sk = {'strict': True} if strict else {}

    class _P(object):
        # function form, or (case['method']) the method form on a wrapped first argument
        def __getattr__(self, name):
            if not case.get('method'):
                return getattr(petl, name)
            return lambda t, *a_, **k_: getattr(petl.wrap(t), name)(*a_, **k_)
    P = _P()
    if case.get('method'):
        ctx.seen('method-form')
    a, b = tables()
    comp = check('complement', lambda: P.complement(a, b, **pk, **sk), hdr_a, exp_comp, arows_strict)
    a, b = tables()
    inter = check('intersection', lambda: P.intersection(a, b, **pk), hdr_a, exp_int, arows_strict)
    a, b = plain()
    a_order = [tuple(r) for r in util.rows_of(a)[1:]] if wa else ra      # the order in which the (view) input a delivers its rows
    check('hashcomplement', lambda: P.hashcomplement(a, b, **sk), hdr_a, exp_comp, arows_strict, order_of=a_order)
    a, b = plain()
    check('hashintersection', lambda: P.hashintersection(a, b), hdr_a, exp_int, arows_strict, order_of=a_order)
    a, b = tables()
    dres = util.attempt(lambda: P.diff(a, b, **pk, **sk))
    if isinstance(dres, util.Raised):
        out.append({'kind': 'exception', 'fn': 'diff', 'detail': dres.text, 'where': dres.where})
    else:
        check('diff[added]', lambda: dres[0], hdr_b, exp_comp_ba, brows_strict)
        check('diff[subtracted]', lambda: dres[1], hdr_a, exp_comp, arows_strict)
    # reassembly law (non-strict): (a - b) + (a & b) == a
    if not strict and comp is not None and inter is not None:
        if _cnt(comp) + _cnt(inter) != ca:
            out.append({'kind': 'complement+intersection!=a', 'complement': comp, 'intersection': inter})
    # record variants: b's fields permuted, aligned by name
    perm = case['perm']
    if case.get('widths_differ'):
        ctx.seen('tables-of-different-widths')
    if case.get('intlabels'):
        ctx.seen('field-labels-that-are-valid-positions')      # (the record* forms align by name, where an int is a position: not judged)
    if not case['presorted'] and not case.get('widths_differ') and not case.get('intlabels'):
        a = _container(a0, case['tuples'][0], wa)
        bp = b0
        if perm is not None:
            ctx.seen('permuted-b-header')
            bp = [[b0[0][i] for i in perm]] + [[r[i] for i in perm] for r in b0[1:]]
        b = _container(bp, case['tuples'][1], wb)
        bsrc_strict = Counter(util.crow([r[i] for i in perm] if perm else r) for r in rb)
        bperm_hdr = tuple(bp[0])
        bk = {'buffersize': case['buffersize']} if case.get('buffersize') is not None else {}
        check('recordcomplement', lambda: P.recordcomplement(a, b, **sk, **bk), hdr_a, exp_comp, arows_strict)
        rres = util.attempt(lambda: P.recorddiff(a, b, **sk, **bk))
        if isinstance(rres, util.Raised):
            out.append({'kind': 'exception', 'fn': 'recorddiff', 'detail': rres.text, 'where': rres.where})
        else:
            # added = recordcomplement(b, a): rows of b in b's field order
            if perm is not None:
                exp_added = Counter()
                for k, v in exp_comp_ba.items():
                    exp_added[tuple(k[i] for i in perm)] += v
            else:
                exp_added = exp_comp_ba
            check('recorddiff[added]', lambda: rres[0], bperm_hdr, exp_added, bsrc_strict)
            check('recorddiff[subtracted]', lambda: rres[1], hdr_a, exp_comp, arows_strict)
    return out
