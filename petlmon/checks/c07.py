"""C07  Hash joins and lookups agree with the sort-merge joins.

Differential monitor: every hash* operator is compared (a) with its sort-merge
counterpart as petl computes it, (b) with the nested-loop reference, (c) for
emission order with the reference sequence "streamed side in table order,
partners in build-side table order", and (d) across passes with cache on/off
while CountingSource probes on the build side report whether a pass re-read it.
The lookup family is compared with a dict-of-lists reference, including
strict=True raising DuplicateKeyError exactly when (and for the key that) repeats.
"""
from __future__ import annotations

import copy

import petl
from petl.errors import DuplicateKeyError

from petlmon import gen, oracles, probes, util

ID = 'C07'
LEVEL = 'exploration'
RULE = ('cases = hash-join cases (operator, left, right, key arguments, missing, prefixes, cache) and lookup cases '
        '(function, table, key, value, strict, prefilled dictionary); directed battery + seeded random tables of 0-5 rows '
        'with hashable keys from a small pool (None, 1/1.0/True, mixed types, compound). Non-trivial: join case with a '
        'duplicated key on the build side and both a matching and a non-matching streamed row; lookup case with a repeated key. '
        'Distinct = SHA-1 of the case.')
ASSUMPTIONS = ['hashable key values only (property domain); hash equality coincides with == on the generated pool',
               'anti-joins and lookups get rectangular tables (they do not square up)']
HOPS = {'hashjoin': 'join', 'hashleftjoin': 'leftjoin', 'hashrightjoin': 'rightjoin', 'hashantijoin': 'antijoin',
        'hashlookupjoin': 'lookupjoin'}
LOOKUPS = ['lookup', 'lookupone', 'dictlookup', 'dictlookupone', 'recordlookup', 'recordlookupone']
REQUIRED = (['op:' + o for o in HOPS] + ['op:' + o for o in LOOKUPS] +
            ['build-side-duplicates', 'build-side-empty', 'none-key-both-sides', 'pass2-served-from-cached-lookup',
             'pass2-cache-off-reflects-edit', 'pass3-cache-off-reflects-header-edit', 'inputs-are-pass-through-views', 'strict-raised', 'strict-not-raised', 'prefilled-dictionary', 'copying-dictionary', 'lookup-value-by-index-0'])

KPOOL = [None, 1, 1.0, True, 2, 'a', b'a', 'b', (1, 2), gen.D(2020, 1, 1), 0, False, '', ()]


def _mk(op, left, right, **kw):
    c = {'kind': 'join', 'op': op, 'left': left, 'right': right, 'key': None, 'lkey': None, 'rkey': None, 'missing': None,
         'lprefix': None, 'rprefix': None, 'cache': True}
    c.update(kw)
    return c


def _lk(fn, table, key, **kw):
    c = {'kind': 'lookup', 'op': fn, 'table': table, 'key': key, 'value': None, 'strict': False, 'prefill': False, 'copying': False}
    c.update(kw)
    return c


def _battery():
    for op in HOPS:
        yield _mk(op, [['k', 'a'], [None, 'x'], [1, 'y'], [1, 'z'], [3, 'w']], [['k', 'b'], [1, 'p'], [None, 'q'], [1.0, 'r'], [2, 's']], key='k')
        yield _mk(op, [['k', 'a'], [None, 'x'], [1, 'y']], [['k', 'b']], key='k')
        yield _mk(op, [['k', 'a']], [['k', 'b'], [None, 'x'], [1, 'y']], key='k')
        yield _mk(op, [['k', 'a'], [2, 'x'], [1, 'y'], [2, 'z']], [['k', 'b'], [2, 'p'], [2, 'q'], [1, 'r']], key='k', cache=False)
        yield _mk(op, [['k', 'j', 'a'], [1, None, 'x'], [1, 2, 'y']], [['b', 'k', 'j'], ['p', 1, None], ['q', 1, 3]], key=('k', 'j'))
        yield _mk(op, [['k', 'a'], [1, 'x']], [['rk', 'b'], [1, 'p']], lkey='k', rkey='rk')
    T = [['k', 'v', 'w'], [1, 'a', 'x'], [2, 'b', 'y'], [1, 'c', 'z'], [None, 'd', 'u'], [1.0, 'e', 't']]
    U = [['k', 'v', 'w'], [1, 'a', 'x'], [2, 'b', 'y'], [None, 'd', 'u']]
    for fn in LOOKUPS:
        yield _lk(fn, T, 'k')
        yield _lk(fn, T, ('k', 'v'))
        yield _lk(fn, [['k', 'v', 'w']], 'k')
        yield _lk(fn, T, 'k', prefill=True)
        yield _lk(fn, T, 'k', prefill=True, copying=True)
        if fn.endswith('one'):
            yield _lk(fn, T, 'k', strict=True)
            yield _lk(fn, U, 'k', strict=True)
            yield _lk(fn, U, 'k', strict=True, prefill=True)
    for fn in ('lookup', 'lookupone'):
        yield _lk(fn, T, 'k', value='v')
        yield _lk(fn, T, 'k', value=('v', 'w'))
        yield _lk(fn, [['k', 'v'], [1, None], [1, 'x'], [None, None], [None, 'y']], 'k', value='v')
        yield _lk(fn, [['k', 'v'], [1, None], [1, 'x']], 'k', value='v', strict=(fn == 'lookupone'))


def cases(ctx):
    for c in _battery():
        yield c
    rng = ctx.rng('random')
    ops = list(HOPS)
    for i in range(ctx.pick(60000, 800000)):
        op = ops[i % len(ops)]
        pool = rng.sample(KPOOL, 4) + [None]
        nkey = 1 if rng.random() < 0.7 else 2
        samenames = rng.random() < 0.6
        lkn = ['k', 'j'][:nkey]
        rkn = lkn if samenames else ['rk', 'rj'][:nkey]
        # field names need not be strings (years, codes): they travel into the output header as they are
        nonstr = rng.random() < 0.12
        lhdr = lkn + (['a', 2019] if nonstr else ['a', 'a2'])[:rng.randint(0, 2)]
        rhdr = rkn + ([2020, 'b2'] if nonstr else ['b', 'b2'])[:rng.randint(0, 2)]
        rng.shuffle(lhdr)
        rng.shuffle(rhdr)
        useidx = rng.random() < 0.12        # keys given by position (rectangular tables)
        ragged = 0.3 if (op != 'hashantijoin' and rng.random() < 0.25 and not useidx) else 0.0

        def side(hdr, kn, tag, n):
            rows = []
            for r in range(n):
                row = [rng.choice(pool) if f in kn else '%s%d%s' % (tag, r, f) for f in hdr]
                if ragged and rng.random() < ragged:
                    row = row[:rng.randrange(len(row) + 1)] if rng.random() < 0.75 else row + ['extra']
                rows.append(row)
            return [list(hdr)] + rows
        left = side(lhdr, lkn, 'L', rng.choice([0, 1, 2, 3, 3, 4, 5]))
        right = side(rhdr, rkn, 'R', rng.choice([0, 1, 2, 3, 3, 4, 5]))
        kw = {}
        if samenames:
            if rng.random() >= 0.25:
                kw['key'] = lkn[0] if nkey == 1 and rng.random() < 0.7 else (tuple(lkn) if rng.random() < 0.5 else list(lkn))
        else:
            kw['lkey'] = lkn[0] if nkey == 1 else tuple(lkn)
            kw['rkey'] = rkn[0] if nkey == 1 else tuple(rkn)
        if useidx:
            li, ri = [lhdr.index(f) for f in lkn], [rhdr.index(f) for f in rkn]
            for k_ in ('key', 'lkey', 'rkey'):
                kw.pop(k_, None)
            if li == ri and rng.random() < 0.5:
                kw['key'] = li[0] if nkey == 1 else tuple(li)
            else:
                kw['lkey'] = li[0] if (nkey == 1 and rng.random() < 0.7) else tuple(li)
                kw['rkey'] = ri[0] if (nkey == 1 and rng.random() < 0.7) else tuple(ri)
        if op != 'hashantijoin':
            if rng.random() < 0.2:
                kw['lprefix'] = 'l_'
            if rng.random() < 0.2:
                kw['rprefix'] = 'r_'
            if rng.random() < 0.3:
                kw['missing'] = rng.choice(['M', 0, (), pool[0]])
        if op in ('hashjoin', 'hashleftjoin', 'hashrightjoin'):
            kw['cache'] = rng.random() < 0.5
        yield _mk(op, left, right, **kw)
    for i in range(ctx.pick(30000, 400000)):
        fn = LOOKUPS[i % len(LOOKUPS)]
        pool = rng.sample(KPOOL, 4) + [None]
        hdr = ['k', 'j', 'v', 'w'][:rng.randint(2, 4)]
        rng.shuffle(hdr)
        n = rng.randint(0, 6)
        rows = [[rng.choice(pool) if f in ('k', 'j') else rng.choice([None, 'r%d%s' % (r, f), 'same']) for f in hdr] for r in range(n)]
        keyf = [f for f in hdr if f in ('k', 'j')] or [hdr[0]]
        key = keyf[0] if (len(keyf) == 1 or rng.random() < 0.6) else tuple(keyf)
        r3 = rng.random()
        if r3 < 0.15 and not isinstance(key, tuple):
            key = hdr.index(key)
        elif r3 < 0.25 and not isinstance(key, tuple):
            key = rng.choice([(key,), [key], (hdr.index(key),)])       # a one-element sequence: the same single field
        elif r3 < 0.3 and isinstance(key, tuple):
            key = list(key)
        kw = {}
        if fn in ('lookup', 'lookupone') and rng.random() < 0.5:
            vf = [f for f in hdr if f not in keyf] or [hdr[-1]]
            kw['value'] = vf[0] if (len(vf) == 1 or rng.random() < 0.6) else tuple(vf)
            if rng.random() < 0.3:
                # the value selection by position (index 0 included), one index or several
                kw['value'] = rng.choice([0, 0, len(hdr) - 1, (0,), tuple(range(len(hdr)))[::-1][:2]])
        if fn.endswith('one'):
            kw['strict'] = rng.random() < 0.5
        kw['prefill'] = rng.random() < 0.3
        kw['copying'] = kw['prefill'] and rng.random() < 0.5
        yield _lk(fn, [hdr] + rows, key, **kw)


# ---------------------------------------------------------------------------

def judge(case, ctx):
    ctx.op('op:' + case['op'])
    if case['kind'] == 'lookup':
        return _judge_lookup(case, ctx)
    return _judge_join(case, ctx)


def _keys(case):
    lhdr, rhdr = case['left'][0], case['right'][0]
    if case['key'] is None and case['lkey'] is None:
        nk = oracles.natural_key(lhdr, rhdr)
        k = nk[0] if len(nk) == 1 else nk
        return k, k
    if case['key'] is not None:
        return case['key'], case['key']
    return case['lkey'], case['rkey']


def _ref_sequence(op, left, right, lkey, rkey, missing, lprefix, rprefix):
    """reference output *sequence*: streamed side in table order, partners in
    build-side table order; groups = rows produced per streamed row"""
    if op == 'hashantijoin':
        hdr, rows = oracles.ref_antijoin(left, right, lkey, rkey)
        return hdr, [[r] for r in rows]
    mop = HOPS[op]
    lhdr, lrows = oracles.square(left, missing)
    rhdr, rrows = oracles.square(right, missing)
    lk = gen.resolve_key(lhdr, lkey)
    rk = gen.resolve_key(rhdr, rkey)
    outhdr, rv = oracles.join_header(lhdr, rhdr, rk, lprefix, rprefix)
    groups = []
    if op != 'hashrightjoin':
        for lrow in lrows:
            kv = oracles.keytuple(lrow, lk)
            partners = [r for r in rrows if oracles.key_eq(kv, oracles.keytuple(r, rk))]
            if mop == 'lookupjoin':
                partners = partners[:1]
            g = [tuple(lrow) + tuple(r[i] for i in rv) for r in partners]
            if not partners and mop in ('leftjoin', 'lookupjoin'):
                g = [tuple(lrow) + (missing,) * len(rv)]
            groups.append(g)
    else:
        for rrow in rrows:
            kv = oracles.keytuple(rrow, rk)
            partners = [l for l in lrows if oracles.key_eq(oracles.keytuple(l, lk), kv)]
            g = [tuple(l) + tuple(rrow[i] for i in rv) for l in partners]
            if not partners:
                o = [missing] * len(lhdr)
                for li, ri in zip(lk, rk):
                    o[li] = rrow[ri]
                g = [tuple(o) + tuple(rrow[i] for i in rv)]
            groups.append(g)
    return outhdr, groups


def _compare(got, exp_hdr, groups, label):
    if isinstance(got, util.Raised):
        return {'kind': 'exception', 'detail': got.text, 'where': got.where, 'at': label}
    flat = [r for g in groups for r in g]
    if not got or util.crow(got[0]) != util.crow(exp_hdr):
        return {'kind': 'header-differs', 'at': label, 'expected': exp_hdr, 'observed': got[:1]}
    body = got[1:]
    if oracles.multiset(body) != oracles.multiset(flat):
        return {'kind': 'rows-differ-from-reference', 'at': label, 'expected': flat, 'observed': body}
    if util.crows(body) != util.crows(flat):
        # same multiset: is it the streamed-side order or the order within one streamed row?
        pos = 0
        for g in groups:
            seg = body[pos:pos + len(g)]
            if oracles.multiset(seg) != oracles.multiset(g):
                return {'kind': 'not-in-streamed-side-order', 'at': label, 'expected': flat, 'observed': body}
            pos += len(g)
        return {'kind': 'partners-not-in-build-side-order', 'at': label, 'expected': flat, 'observed': body}
    return None


def _judge_join(case, ctx):
    op = case['op']
    mop = HOPS[op]
    left, right = copy.deepcopy(case['left']), copy.deepcopy(case['right'])
    lkey, rkey = _keys(case)
    missing = case['missing']
    kw = {}
    for a in ('key', 'lkey', 'rkey'):
        if case[a] is not None:
            kw[a] = case[a]
    if op != 'hashantijoin':
        for a in ('lprefix', 'rprefix', 'missing'):
            if case[a] is not None:
                kw[a] = case[a]
    mkw = dict(kw)
    if mop == 'join':
        mkw.pop('missing', None)     # join() has no missing argument; it squares up with None
    hkw = dict(kw)
    has_cache = op in ('hashjoin', 'hashleftjoin', 'hashrightjoin')
    if has_cache:
        hkw['cache'] = case['cache']
    exp_hdr, groups = _ref_sequence(op, left, right, lkey, rkey, missing, case['lprefix'], case['rprefix'])

    # observations for non-triviality / required tallies
    build = right if op != 'hashrightjoin' else left
    bkey = rkey if op != 'hashrightjoin' else lkey
    bhdr, brows = (oracles.square(build, missing) if op != 'hashantijoin' else (list(build[0]), [tuple(r) for r in build[1:]]))
    bk = gen.resolve_key(bhdr, bkey)
    bkeys = [oracles.keytuple(r, bk) for r in brows]
    dup = any(oracles.key_eq(bkeys[i], bkeys[j]) for i in range(len(bkeys)) for j in range(i + 1, len(bkeys)))
    if dup:
        ctx.seen('build-side-duplicates')
    if not brows:
        ctx.seen('build-side-empty')
    stream = left if op != 'hashrightjoin' else right
    skey = lkey if op != 'hashrightjoin' else rkey
    shdr, srows = (oracles.square(stream, missing) if op != 'hashantijoin' else (list(stream[0]), [tuple(r) for r in stream[1:]]))
    sk = gen.resolve_key(shdr, skey)
    skeys = [oracles.keytuple(r, sk) for r in srows]
    nonek = (None,) * len(bk)
    if any(oracles.key_eq(k, nonek) for k in bkeys) and any(oracles.key_eq(k, nonek) for k in skeys):
        ctx.seen('none-key-both-sides')
    hit = [any(oracles.key_eq(k, b) for b in bkeys) for k in skeys]
    if dup and any(hit) and not all(hit):
        ctx.mark_nontrivial()

    out = []
    # (a)+(b)+(c): hash operator vs reference sequence
    bsrc = probes.CountingSource(build)
    a, b = (left, bsrc) if op != 'hashrightjoin' else (bsrc, right)
    # the inputs may themselves be views that hand every row on as it is (ragged rows stay ragged)
    form = int(util.fp(case)[4:6], 16) % 8
    if form < 3:
        passthrough = [petl.wrap, lambda t: petl.stack(t, pad=False, trim=False), lambda t: petl.rowslice(t, None)][form]
        a, b = passthrough(a), passthrough(b)
        ctx.seen('inputs-are-pass-through-views')
    view = getattr(petl, op)(a, b, **hkw)
    got1 = util.attempt_rows(lambda: view)
    v = _compare(got1, exp_hdr, groups, 'pass1')
    if v:
        out.append(v)
    # merge counterpart as petl computes it (multiset + header)
    mgot = util.attempt_rows(lambda: getattr(petl, mop)(copy.deepcopy(case['left']), copy.deepcopy(case['right']), **mkw))
    if mop == 'join' and missing is not None and (any(len(r) < len(left[0]) for r in left[1:]) or any(len(r) < len(right[0]) for r in right[1:])):
        pass   # hashjoin(missing=) pads with `missing`, join() has no such argument: no counterpart for short rows
    elif isinstance(mgot, util.Raised) or isinstance(got1, util.Raised):
        if isinstance(mgot, util.Raised) != isinstance(got1, util.Raised):
            out.append({'kind': 'hash-and-merge-disagree', 'hash': repr(got1)[:300], 'merge': repr(mgot)[:300]})
    elif util.crow(mgot[0]) != util.crow(got1[0]) or oracles.multiset(mgot[1:]) != oracles.multiset(got1[1:]):
        out.append({'kind': 'hash-and-merge-disagree', 'hash': got1, 'merge': mgot})
    if out:
        return out
    # (d) passes
    pulls_after_1 = bsrc.data_pulls
    got2 = util.attempt_rows(lambda: view)
    if isinstance(got2, util.Raised) or util.crows(got2) != util.crows(got1):
        out.append({'kind': 'second-pass-differs', 'cache': case['cache'], 'pass1': got1, 'pass2': repr(got2)})
    if has_cache and case['cache']:
        if bsrc.data_pulls != pulls_after_1:
            out.append({'kind': 'second-pass-reread-build-side', 'pulls': [pulls_after_1, bsrc.data_pulls]})
        else:
            ctx.seen('pass2-served-from-cached-lookup')
    else:
        # no cache (or no cache argument): a pass reflects the build side's current contents
        newrow = list(brows[0]) if brows else [None] * len(bhdr)
        if srows:
            for i, ki in zip(bk, sk):
                newrow[i] = srows[-1][ki]
        build.append(list(newrow))
        exp_hdr2, groups2 = _ref_sequence(op, left, right, lkey, rkey, missing, case['lprefix'], case['rprefix'])
        got3 = util.attempt_rows(lambda: view)
        v = _compare(got3, exp_hdr2, groups2, 'pass-after-edit')
        if v:
            v['kind'] = 'cache-off-pass-does-not-reflect-edit:' + v['kind']
            out.append(v)
        else:
            ctx.seen('pass2-cache-off-reflects-edit')
            # then the build side's *header* changes too: a non-key field is renamed and (keys given by name) the columns rotate
            bk_now = gen.resolve_key(build[0], bkey)
            nonkey = [j for j in range(len(build[0])) if j not in bk_now]
            by_index = any(isinstance(x, int) and not isinstance(x, bool) for x in (list(bkey) if isinstance(bkey, (list, tuple)) else [bkey]))
            if nonkey and all(len(r) == len(build[0]) for r in build[1:]):
                build[0] = list(build[0])
                build[0][nonkey[-1]] = 'zz_renamed'
                if not by_index and len(build[0]) > 1:
                    for i_ in range(len(build)):
                        build[i_] = list(build[i_][1:]) + [build[i_][0]]
                exp_hdr3, groups3 = _ref_sequence(op, left, right, lkey, rkey, missing, case['lprefix'], case['rprefix'])
                got4 = util.attempt_rows(lambda: view)
                v = _compare(got4, exp_hdr3, groups3, 'pass-after-header-edit')
                if v:
                    v['kind'] = 'cache-off-pass-does-not-reflect-header-edit:' + v['kind']
                    out.append(v)
                else:
                    ctx.seen('pass3-cache-off-reflects-header-edit')
    return out


# ---------------------------------------------------------------------------

class CopyingDict(dict):
    """a mapping that, like shelve, returns a copy of the stored value on every read: an in-place append to what
    __getitem__ returned is lost unless the value is written back (the lookup functions document shelve support)"""

    def __getitem__(self, k):
        import copy
        return copy.copy(dict.__getitem__(self, k))

    def get(self, k, default=None):
        return self[k] if k in self else default


def _judge_lookup(case, ctx):
    fn = case['op']
    table = copy.deepcopy(case['table'])
    hdr = table[0]
    key, value, strict = case['key'], case['value'], case['strict']
    kidx = gen.resolve_key(hdr, key)
    one = fn.endswith('one')
    flds = [str(f) for f in hdr]

    def val(row):
        if fn.startswith('dict'):
            return dict(zip(flds, row))
        if fn.startswith('record'):
            return tuple(row)
        if value is None:
            return tuple(row[:len(hdr)])
        vidx = gen.resolve_key(hdr, value)
        return row[vidx[0]] if len(vidx) == 1 else tuple(row[i] for i in vidx)

    def keyof(row):
        return row[kidx[0]] if len(kidx) == 1 else tuple(row[i] for i in kidx)

    pre = {}
    if case['prefill']:
        ctx.seen('prefilled-dictionary')
        pre = {('pre', 'x'): 'keep'}
        if table[1:]:
            k0 = keyof(table[1])
            pre[k0] = 'PRE' if one else ['PRE']
    exp = dict((k, (list(v) if isinstance(v, list) else v)) for k, v in pre.items())
    NO = object()
    exp_raise = NO
    for row in table[1:]:
        k = keyof(row)
        if one:
            if k in exp:
                if strict:
                    exp_raise = k
                    break
            else:
                exp[k] = val(row)
        else:
            exp.setdefault(k, []).append(val(row))
    keys = [keyof(r) for r in table[1:]]
    if len(set(keys)) < len(keys):
        ctx.mark_nontrivial()
    kw = {}
    if value is not None:
        kw['value'] = value
        if value == 0 and isinstance(value, int):
            ctx.seen('lookup-value-by-index-0')
    if one and strict:
        kw['strict'] = True
    d = None
    if case['prefill']:
        d = dict((k, (list(v) if isinstance(v, list) else v)) for k, v in pre.items())
        if case.get('copying'):
            d = CopyingDict(d)
            ctx.seen('copying-dictionary')
        kw['dictionary'] = d
    f = getattr(petl, fn)
    try:
        got = f(table, key, **kw)
    except DuplicateKeyError as e:
        if exp_raise is NO:
            return {'kind': 'strict-raised-without-duplicate', 'key': e.key}
        ctx.seen('strict-raised')
        if util.canon(e.key) != util.canon(exp_raise):
            return {'kind': 'strict-raised-with-wrong-key', 'expected': exp_raise, 'observed': e.key}
        return None
    if exp_raise is not NO:
        return {'kind': 'strict-did-not-raise', 'duplicate-key': exp_raise, 'observed': got}
    if one and strict:
        ctx.seen('strict-not-raised')
    if d is not None and got is not d:
        return {'kind': 'dictionary-argument-not-used'}

    def cv(v):
        if isinstance(v, list):
            return ('list', tuple(cv(x) for x in v))
        if isinstance(v, dict):
            return ('dict', tuple(sorted((k, util.canon(x)) for k, x in v.items())))
        if isinstance(v, tuple):
            return ('row', util.crow(v))
        return util.canon(v)
    g = {util.canon(k): cv(v) for k, v in got.items()}
    e = {util.canon(k): cv(v) for k, v in exp.items()}
    if g != e or len(got) != len(exp):
        return {'kind': 'lookup-differs', 'expected': exp, 'observed': dict(got)}
    if fn.startswith('record'):
        for k, v in got.items():
            for rec in (v if isinstance(v, list) else [v]):
                if isinstance(rec, tuple) and not isinstance(rec, str) and hasattr(rec, 'flds'):
                    for i, fld in enumerate(flds):
                        if flds.index(fld) == i and util.canon(rec[fld]) != util.canon(rec[i]):
                            return {'kind': 'record-field-access-differs', 'record': tuple(rec), 'field': fld}
    return None
