"""C04  Mixed-type ordering is one consistent total preorder: None < numbers < rest.

(a) offline law checker on Comparable-wrapped values: all pairs and (sampled /
exhaustive) triples of a ~60 value pool, plus random nested values;
(b) online: ComparableSpy turns every comparison petl performs during sort /
mergesort / join / selector / issorted workloads into an event that is checked
against the independent ordering model as it happens;
(c) the outputs of those operators are checked against the model ordering.
"""
from __future__ import annotations

import copy
import zlib
import datetime
import itertools
from decimal import Decimal

import petl
from petl.comparison import Comparable

from petlmon import gen, probes, util

ID = 'C04'
LEVEL = 'exploration'
RULE = ('law cases: one pool value a against every pool value b (all ordered pairs, exhaustive) and every (a,b) against every c '
        '(triples: sampled in quick, exhaustive in thorough) over a pool of ~60 values covering every listed type with boundary '
        'members, plus random nested tuples/lists; online cases: random mixed-type tables run through sort, mergesort, issorted, '
        'the comparison selectors and merge joins with a spy on Comparable.__lt__/__eq__. Non-trivial: the case compares values of '
        'different type classes or sequences. Distinct = SHA-1 of the case.')
ASSUMPTIONS = ['NaN and values outside the listed domain are not generated', 'the reference model petlmon.util.model_cmp transcribes the property text']
D, DT, T = datetime.date, datetime.datetime, datetime.time

POOL = [
    None,
    False, True, 0, 1, 2, -1, 10 ** 20, -10 ** 20,
    0.0, -0.0, 1.0, 2.5, -0.5, 1e300, float('inf'), float('-inf'),
    Decimal('0'), Decimal('1'), Decimal('2.5'), Decimal('-3'),
    # numbers that differ only beyond what a conversion to float keeps: numbers of different types are compared exactly
    0.1, Decimal('0.1'), Decimal('0.1000000000000000055511151231257827'), 2 ** 53 + 1, float(2 ** 53),
    b'', b'a', b'b', b'B', b'ab', b'\xff',
    '', 'a', 'b', 'B', 'ab', 'é', '1', ' ',
    D(2020, 1, 1), D(2021, 6, 15), DT(2020, 1, 1, 0, 0), DT(2020, 1, 1, 12, 30), DT(2019, 12, 31, 23, 59), T(0, 0), T(12, 30),
    (), (1,), (1, 2), (1, None), (None,), (None, 1), ('a',), ('a', 1), (1, 'a'), (b'a',), ((1,),), ((1, 2), 3), (1, (2, None)),
    [], [1], [1, 2], [None], ['a', (1,)], [[1]],
]
SCALARS = [v for v in POOL if not isinstance(v, (list, tuple))]
CLASSES = ['none', 'bool', 'int', 'float', 'Decimal', 'bytes', 'str', 'date', 'datetime', 'time', 'seq']


def cls(v):
    if v is None:
        return 'none'
    if isinstance(v, bool):
        return 'bool'
    if isinstance(v, (list, tuple)):
        return 'seq'
    return type(v).__name__


REQUIRED = (['online:join-with-rows-that-lack-the-key-cell', 'online:join-with-an-explicit-buffersize', 'online:select-in-method-form', 'online:sort-with-missing-key-cells', 'online:mergesort-3+-inputs', 'online:sort-chunked-3+-chunks', 'online:sort-chunked-3+-chunks-reverse', 'law-pairs', 'law-triples', 'online:sort', 'online:join', 'online:select', 'online:issorted', 'online:mergesort',
             'nested-vs-flat'] + ['classpair:%s|%s' % (x, y) for x in CLASSES for y in CLASSES])


def required(tier):
    return REQUIRED




def cases(ctx):
    for a in POOL:
        yield {'kind': 'pairs', 'a': a}
    rng = ctx.rng('triples')
    pairs = [(a, b) for a in POOL for b in POOL]
    if ctx.quick:
        pairs = rng.sample(pairs, 2500)
    for a, b in pairs:
        yield {'kind': 'triples', 'a': a, 'b': b}
    rng = ctx.rng('nested')

    def nested(depth=0):
        r = rng.random()
        if depth >= 3 or r < 0.55:
            return rng.choice(SCALARS)
        n = rng.randint(0, 3)
        items = [nested(depth + 1) for _ in range(n)]
        return tuple(items) if rng.random() < 0.6 else items
    for i in range(ctx.pick(4000, 60000)):
        yield {'kind': 'nested', 'vals': [nested() for _ in range(5)]}
    rng = ctx.rng('online')
    flat = [v for v in POOL if v == v]
    for i in range(ctx.pick(25000, 400000)):
        which = ['sort', 'select', 'join', 'issorted', 'mergesort'][i % 5]
        pool = rng.sample(flat, rng.randint(3, 8))
        n = rng.randint(0, 7)
        t = [['k', 'j', 'id']] + [[rng.choice(pool), rng.choice(pool), 'r%d' % r] for r in range(n)]
        c = {'kind': which, 'table': t, 'key': rng.choice(['k', ('k', 'j'), None, 0]), 'reverse': rng.random() < 0.4}
        if which in ('sort', 'issorted') and i % 15 < 5:
            c['key'] = ('j', 'k')        # a compound key whose fields are not in row order
        if which == 'select':
            c['value'] = rng.choice(pool + [rng.choice(flat)])
            c['value2'] = rng.choice(pool + [rng.choice(flat)])
            c['via'] = rng.choice([None, None, 'method', 'alias'])      # etl.selectge(t, ..), etl.wrap(t).selectge(..), etl.wrap(t).ge(..)
        if which in ('join', 'mergesort'):
            c['table2'] = [['k', 'b']] + [[rng.choice(pool), 's%d' % r] for r in range(rng.randint(0, 5))]
        if which == 'join' and rng.random() < 0.3:
            # rows too short to hold the key cell, and a fill value that does not sort first: the fill value is then the row's key
            for tb in (t, c['table2']):
                for r_ in tb[1:]:
                    if rng.random() < 0.3:
                        del r_[:]
            c['jragged'] = True
            c['jmissing'] = rng.choice([None, 'M', 5, pool[0]])
        if which == 'mergesort':
            # three and more inputs: the k-way merge has to keep ranking the remaining inputs by this ordering when one runs dry
            c['more'] = [[['k', 'c%d' % j]] + [[rng.choice(pool), 'u%d.%d' % (j, r)] for r in range(rng.randint(0, 4))]
                         for j in range(rng.choice([0, 0, 1, 2, 3]))]
        if which == 'sort':
            # chunked sorts (forward: heap merge, reverse: shortlist merge) must order by the same relation as the in-memory sort
            c['buffersize'] = rng.choice([None, None, 1, 2, 3])
            if c['buffersize'] is not None:
                t.extend([rng.choice(pool), rng.choice(pool), 'x%d' % r] for r in range(rng.randint(0, 6)))
            if rng.random() < 0.2:
                # ragged rows: a key cell the row does not have is ordered as None (and equal to an explicit None)
                for r_ in t[1:]:
                    if rng.random() < 0.3:
                        del r_[rng.randrange(0, 3):]
        if which == 'issorted':
            c['strict'] = rng.random() < 0.4
            if rng.random() < 0.35:
                # whole rows may repeat (no distinguishing id): a strict order must still reject equal neighbours
                for r_ in t[1:]:
                    r_[2] = 'same'
                    r_[1] = pool[0]
            if zlib.crc32(repr(t).encode('utf-8', 'backslashreplace')) % 4 == 0:
                # ragged rows: a key cell the row does not have is ordered as None and ties with an explicit None (so, often, the
                # next row is the same row with its absent cells spelt out as None)
                c['ragged'] = True
                for j_ in range(len(t) - 1, 0, -1):
                    if zlib.crc32(repr((j_, t[j_])).encode('utf-8', 'backslashreplace')) % 3 == 0:
                        full = list(t[j_])
                        cut = zlib.crc32(repr(full).encode('utf-8', 'backslashreplace')) % 3
                        del t[j_][cut:]
                        if cut and j_ % 2:
                            t.insert(j_ + 1, t[j_] + [None] * (3 - cut))
            if rng.random() < 0.5:
                # make it (nearly) sorted so that both verdicts are frequent
                idx = gen.resolve_key(t[0], c['key']) if c['key'] is not None else [0, 1, 2]
                t[1:] = sorted(t[1:], key=lambda r: util.model_key(gen.keyval(r, idx)), reverse=c['reverse'])
                if rng.random() < 0.3 and len(t) > 2:
                    a, b = rng.sample(range(1, len(t)), 2)
                    t[a], t[b] = t[b], t[a]
        yield c


# ---------------------------------------------------------------------------

def _ops(a, b):
    A, B = Comparable(a), Comparable(b)
    return {'lt': A < B, 'eq': A == B, 'le': A <= B, 'gt': A > B, 'ge': A >= B, 'ne': A != B,
            'rlt': B < A, 'req': B == A}


def _law_pair(a, b, ctx, out):
    try:
        o = _ops(a, b)
    except Exception as e:  # a raising comparison is the observation
        out.append({'kind': 'comparison-raised', 'a': a, 'b': b, 'detail': '%s: %s' % (type(e).__name__, e)})
        return
    ctx.seen('law-pairs')
    m = util.model_cmp(a, b)
    bad = []
    if a is b and o['lt']:
        bad.append('reflexive <')
    if o['lt'] and o['rlt']:
        bad.append('symmetric <')
    if [o['lt'], o['eq'], o['rlt']].count(True) != 1:
        bad.append('not exactly one of a<b, a==b, b<a')
    if o['eq'] != o['req']:
        bad.append('== not symmetric')
    if o['le'] != (o['lt'] or o['eq']):
        bad.append('<= differs from (< or ==)')
    if o['gt'] != o['rlt']:
        bad.append('a>b differs from b<a')
    if o['ge'] != (o['rlt'] or o['eq']):
        bad.append('a>=b differs from (b<a or a==b)')
    if o['ne'] == o['eq']:
        bad.append('!= not the negation of ==')
    if o['lt'] != (m < 0) or o['eq'] != (m == 0) or o['rlt'] != (m > 0):
        bad.append('disagrees with the reference ordering (model says %s)' % {-1: 'a<b', 0: 'a~b', 1: 'a>b'}[m])
    if bad:
        out.append({'kind': 'ordering-law-broken', 'a': a, 'b': b, 'laws': bad, 'observed': o})
    ca, cb = cls(a), cls(b)
    ctx.seen('classpair:%s|%s' % (ca, cb))
    if (ca == 'seq') != (cb == 'seq'):
        ctx.seen('nested-vs-flat')


def _law_triple(a, b, c, ctx, out):
    A, B, C_ = Comparable(a), Comparable(b), Comparable(c)
    ctx.seen('law-triples')
    try:
        if A < B and B < C_ and not (A < C_):
            out.append({'kind': 'transitivity-of-<-broken', 'a': a, 'b': b, 'c': c})
        if A == B and B == C_ and not (A == C_):
            out.append({'kind': 'transitivity-of-==-broken', 'a': a, 'b': b, 'c': c})
        if A == B and ((A < C_) != (B < C_) or (C_ < A) != (C_ < B)):
            out.append({'kind': 'equivalent-values-ordered-differently', 'a': a, 'b': b, 'c': c})
    except Exception as e:  # noqa
        out.append({'kind': 'comparison-raised', 'a': a, 'b': b, 'c': c, 'detail': '%s: %s' % (type(e).__name__, e)})


def judge(case, ctx):
    k = case['kind']
    out = []
    if k == 'pairs':
        a = case['a']
        for b in POOL:
            _law_pair(a, b, ctx, out)
            if cls(a) != cls(b) or cls(a) == 'seq':
                ctx.mark_nontrivial()
        return out[:5]
    if k == 'triples':
        a, b = case['a'], case['b']
        if cls(a) != cls(b) or cls(a) == 'seq':
            ctx.mark_nontrivial()
        for c in POOL:
            _law_triple(a, b, c, ctx, out)
            if len(out) > 3:
                break
        return out
    if k == 'nested':
        vals = case['vals']
        ctx.mark_nontrivial()
        for a in vals:
            for b in vals:
                _law_pair(a, b, ctx, out)
        for a, b, c in itertools.product(vals, repeat=3):
            _law_triple(a, b, c, ctx, out)
            if len(out) > 3:
                break
        return out[:5]
    return _judge_online(case, ctx)


# ---------------------------------------------------------------------------

class _Online(object):
    """sink of the ComparableSpy: checks each comparison against the model"""

    def __init__(self):
        self.n = 0
        self.bad = []

    def __call__(self, op, a, b, result):
        self.n += 1
        m = util.model_cmp(a, b)
        exp = (m < 0) if op == 'lt' else (m == 0)
        if bool(result) != exp and len(self.bad) < 3:
            self.bad.append({'kind': 'online-comparison-disagrees-with-model', 'op': op, 'a': a, 'b': b, 'result': result,
                             'model': {-1: 'a<b', 0: 'a~b', 1: 'a>b'}[m]})


def _judge_online(case, ctx):
    which = case['kind']
    table = copy.deepcopy(case['table'])
    hdr = table[0]
    key, reverse = case['key'], case['reverse']
    idx = gen.resolve_key(hdr, key) if key is not None else list(range(len(hdr)))
    keyfn = lambda r: gen.keyval(r, idx)  # noqa: E731
    rows = [tuple(r) for r in table[1:]]
    if len({cls(r[0]) for r in rows if r}) > 1:
        ctx.mark_nontrivial()
    sink = _Online()
    out = []
    with probes.ComparableSpy(sink):
        if which == 'sort':
            src_ = table
            if isinstance(key, (list, tuple)) and len(key) >= 2 and int(util.fp(case)[4:6], 16) % 3 == 0:
                # the input is already a sort view on the leading key field: the order asked for is that of the full key
                src_ = petl.sort(table, key[0], reverse=reverse)
                ctx.seen('online:sort-of-a-sort-view-on-the-leading-key-field')
            got = util.attempt_rows_twice(lambda: petl.sort(src_, key, reverse=reverse, buffersize=case.get('buffersize')))
            if any(len(r) < 3 for r in rows):
                ctx.seen('online:sort-with-missing-key-cells')
            if isinstance(got, util.Raised):
                out.append({'kind': 'exception', 'detail': got.text, 'where': got.where})
            else:
                ks = [keyfn(r) for r in got[1:]]
                ok = all((util.model_cmp(a, b) >= 0) if reverse else (util.model_cmp(a, b) <= 0) for a, b in zip(ks, ks[1:]))
                if not ok:
                    out.append({'kind': 'sort-output-not-ordered-under-model', 'observed': got})
                if case.get('buffersize') is not None and len(got) - 1 > 2 * case['buffersize']:
                    ctx.seen('online:sort-chunked-3+-chunks' + ('-reverse' if reverse else ''))
        elif which == 'mergesort':
            t2 = copy.deepcopy(case['table2'])
            more = copy.deepcopy(case.get('more', []))
            mk = 'k'
            if more:
                ctx.seen('online:mergesort-3+-inputs')
            got = util.attempt_rows(lambda: petl.mergesort(table, t2, *more, key=mk, reverse=reverse))
            if isinstance(got, util.Raised):
                out.append({'kind': 'exception', 'detail': got.text, 'where': got.where})
            else:
                ks = [r[0] for r in got[1:]]
                ok = all((util.model_cmp(a, b) >= 0) if reverse else (util.model_cmp(a, b) <= 0) for a, b in zip(ks, ks[1:]))
                if not ok:
                    out.append({'kind': 'mergesort-output-not-ordered-under-model', 'observed': got})
        elif which == 'issorted':
            strict = case['strict']
            ks = [keyfn(r) for r in rows]
            exp = True
            for a, b in zip(ks, ks[1:]):
                c = util.model_cmp(a, b)
                if reverse:
                    c = -c
                if c > 0 or (strict and c == 0):
                    exp = False
            if case.get('ragged') and any(len(r) < 3 for r in rows):
                ctx.seen('online:issorted-with-missing-key-cells')
            got = util.attempt(lambda: petl.issorted(table, key, reverse=reverse, strict=strict))
            if isinstance(got, util.Raised):
                out.append({'kind': 'exception', 'fn': 'issorted', 'detail': got.text, 'where': got.where, 'nrows': len(rows), 'key': key})
            elif bool(got) != exp:
                out.append({'kind': 'issorted-disagrees-with-model', 'expected': exp, 'observed': got})
        elif which == 'select':
            v, v2 = case['value'], case['value2']
            cells = [r[0] for r in rows]

            via = case.get('via')
            short = {'selectlt': 'lt', 'selectle': 'le', 'selectgt': 'gt', 'selectge': 'ge'}
            if via:
                ctx.seen('online:select-in-method-form')

            def sel(fn, *a):
                if via:
                    mname = short.get(fn, fn) if via == 'alias' else fn
                    g = util.attempt_rows(lambda: getattr(petl.wrap(table), mname)('k', *a))
                else:
                    g = util.attempt_rows(lambda: getattr(petl, fn)(table, 'k', *a))
                if isinstance(g, util.Raised):
                    out.append({'kind': 'exception', 'fn': fn, 'detail': g.text, 'where': g.where})
                    return None
                return [r[2] for r in g[1:]]

            def expect(pred):
                return [r[2] for r in rows if pred(r[0])]
            mc = util.model_cmp
            table_of = [('selectlt', (v,), lambda c: mc(c, v) < 0), ('selectle', (v,), lambda c: mc(c, v) <= 0),
                        ('selectgt', (v,), lambda c: mc(c, v) > 0), ('selectge', (v,), lambda c: mc(c, v) >= 0),
                        ('selectrangeopenleft', (v, v2), lambda c: mc(v, c) <= 0 and mc(c, v2) < 0),
                        ('selectrangeopenright', (v, v2), lambda c: mc(v, c) < 0 and mc(c, v2) <= 0),
                        ('selectrangeopen', (v, v2), lambda c: mc(v, c) <= 0 and mc(c, v2) <= 0),
                        ('selectrangeclosed', (v, v2), lambda c: mc(v, c) < 0 and mc(c, v2) < 0)]
            res = {}
            for fn, args, pred in table_of:
                g = sel(fn, *args)
                res[fn] = g
                if g is not None and g != expect(pred):
                    out.append({'kind': 'selector-disagrees-with-model-ordering', 'fn': fn, 'args': list(args), 'cells': cells,
                                'expected': expect(pred), 'observed': g})
            if res.get('selectlt') is not None and res.get('selectge') is not None:
                if sorted(res['selectlt'] + res['selectge']) != sorted(r[2] for r in rows):
                    out.append({'kind': 'selectlt+selectge-not-a-partition', 'value': v, 'cells': cells})
        elif which == 'join':
            from petlmon import oracles
            t2 = copy.deepcopy(case['table2'])
            jm = case.get('jmissing')
            if case.get('jragged'):
                ctx.seen('online:join-with-rows-that-lack-the-key-cell')
            # the sort underneath runs in memory or through chunk files: the same ordering either way
            jbs = [None, None, 1, 2, 1000][int(util.fp(case)[6:8], 16) % 5]
            if jbs is not None:
                ctx.seen('online:join-with-an-explicit-buffersize')
            for fn in ('join', 'outerjoin', 'leftjoin', 'rightjoin', 'lookupjoin', 'antijoin'):
                jkw = {'missing': jm} if (jm is not None and fn not in ('join', 'antijoin')) else {}
                if jbs is not None:
                    jkw['buffersize'] = jbs
                got = util.attempt_rows(lambda: getattr(petl, fn)(table, t2, key='k', **jkw))
                if isinstance(got, util.Raised):
                    out.append({'kind': 'exception', 'fn': fn, 'detail': got.text, 'where': got.where})
                elif fn == 'antijoin':
                    ks = [(r[0] if len(r) else None) for r in got[1:]]
                    if not all(util.model_cmp(a, b) <= 0 for a, b in zip(ks, ks[1:])):
                        out.append({'kind': 'join-output-not-grouped-ascending-under-model', 'fn': fn, 'observed': got})
                    eh, er = oracles.ref_antijoin(copy.deepcopy(case['table']), copy.deepcopy(case['table2']), 'k', 'k')
                    if oracles.multiset(got[1:]) != oracles.multiset(er):
                        out.append({'kind': 'join-rows-differ-from-the-reference-under-the-ordering-equivalence', 'fn': fn, 'expected': er, 'observed': got[1:]})
                else:
                    ks = [r[0] for r in got[1:]]
                    if not all(util.model_cmp(a, b) <= 0 for a, b in zip(ks, ks[1:])):
                        out.append({'kind': 'join-output-not-grouped-ascending-under-model', 'fn': fn, 'observed': got})
                    # keys pair up exactly when they are equivalent under the ordering ([1, 2] with (1, 2), 1 with 1.0 and True, a
                    # key cell the row lacks with the fill value): the rows of the nested-loop reference join, no more and no fewer
                    eh, er = oracles.ref_join(fn, copy.deepcopy(case['table']), copy.deepcopy(case['table2']), 'k', 'k', jm if fn != 'join' else None)
                    if oracles.multiset(got[1:]) != oracles.multiset(er):
                        out.append({'kind': 'join-rows-differ-from-the-reference-under-the-ordering-equivalence', 'fn': fn, 'expected': er, 'observed': got[1:]})
    ctx.seen('online:' + which, 1)
    ctx.seen('online-comparisons:' + which, sink.n)
    out.extend(sink.bad)
    return out[:6]
