"""C13  Selections return exactly the satisfying rows; complement is the exact rest.

Oracle: the documented predicate of every selector, evaluated directly on the
input rows (ordering predicates under the reference ordering model, missing
cells read as `missing`); selection + complement must partition the input
exactly once; slices are compared with itertools.islice.  A recording
predicate observes what select() hands to user predicates.
"""
from __future__ import annotations

import copy
import itertools
import re
from collections import Counter

import petl

from petlmon import gen, util

ID = 'C13'
LEVEL = 'exploration'
RULE = ('cases = (selector, table, field, reference value(s), complement, missing); directed battery + seeded random tables of 0-7 rows '
        'x 1-4 fields from the full value pool (None, mixed types, list/tuple cells), ragged rows, reference values from the same '
        'pool; all slice triples over {None,0,1,2,5} valid for islice; head/tail n in 0..nrows+2. Non-trivial: the selection keeps '
        'at least one row and drops at least one row. Distinct = SHA-1 of the case.')
ASSUMPTIONS = ['predicates are those documented in the docstrings (selectrangeopen is documented closed, selectrangeclosed open)',
               'selectcontains is only given container cells; search with a field only rectangular tables']
ORDER_SELECTORS = ['selectlt', 'selectle', 'selectgt', 'selectge']
RANGE_SELECTORS = ['selectrangeopenleft', 'selectrangeopenright', 'selectrangeopen', 'selectrangeclosed']
VALUE_SELECTORS = ['selecteq', 'selectne', 'selectin', 'selectnotin', 'selectis', 'selectisnot', 'selectisinstance', 'selectcontains']
UNARY_SELECTORS = ['selecttrue', 'selectfalse', 'selectnone', 'selectnotnone']
OTHER = ['select-callable', 'select-expr', 'select-field', 'select-multifield', 'biselect', 'facet', 'rowlenselect', 'search', 'search-field',
         'searchcomplement', 'selectusingcontext', 'rowslice', 'head', 'tail', 'skip']
REQUIRED = (['sel:' + s for s in ORDER_SELECTORS + RANGE_SELECTORS + VALUE_SELECTORS + UNARY_SELECTORS + OTHER] +
            ['ragged-row-read-as-missing', 'views-re-read-after-an-in-place-edit-of-the-source', 'cells-of-a-str-or-date-subclass', 'select-expr:field-name-made-of-digits', 'complement', 'reference-value-none', 'reference-value-foreign-type', 'recording-predicate-rows', 'rows-are-Record-objects', 'field-given-as-a-one-element-sequence', 'selector-called-as-a-table-method', 'selector-called-by-its-short-alias'])

TYPES = {'int': int, 'str': str, 'float': float, 'bool': bool, 'NoneType': type(None), 'tuple': tuple, 'bytes': bytes}
PREDS = {
    'truthy0': lambda r: bool(r[0]),
    'f0-is-none': lambda r: r['f0'] is None,
    'len>=2': lambda r: len(r) >= 2,
    'last-field-missing': lambda r: r[-1 if False else len(r.flds) - 1] == 'MISSING',
    'always': lambda r: True,
    'never': lambda r: 0,
    'returns-value': lambda r: r[0],
}
VPREDS = {
    'truthy': lambda v: v,
    'is-none': lambda v: v is None,
    'is-str': lambda v: isinstance(v, str),
    'eq-missing': lambda v: v == 'MISSING',
    'returns-2': lambda v: 2 if v else '',
}
CTX = {
    'first-or-last': lambda p, c, n: p is None or n is None,
    'differs-from-prev': lambda p, c, n: p is not None and (p[0] if len(p) else None) != (c[0] if len(c) else None),
    'always': lambda p, c, n: True,
    'next-shorter': lambda p, c, n: n is not None and len(n) < len(c),
}


ALIASES = {'selecteq': 'eq', 'selectne': 'ne', 'selectlt': 'lt', 'selectle': 'le', 'selectgt': 'gt', 'selectge': 'ge', 'selecttrue': 'true',
           'selectfalse': 'false', 'selectnone': 'none', 'selectnotnone': 'notnone'}


def _mk(sel, table, **kw):
    c = {'sel': sel, 'table': table, 'field': None, 'args': [], 'complement': False, 'missing': None}
    c.update(kw)
    return c


def cases(ctx):
    T = [['f0', 'f1', 'f2'], [1, 'a', None], [None, 'b', 2.5], ['x', None, [1]], [2, 'ab'], [], [1.0, b'a', (1, 2), 'extra'], [True, '', 0]]
    for s in ORDER_SELECTORS:
        for v in (1, None, 'a', [1], (1, 2), b''):
            for f in ('f0', 'f2', 2):
                yield _mk(s, T, field=f, args=[v])
                yield _mk(s, T, field=f, args=[v], complement=True)
    for s in RANGE_SELECTORS:
        for lo, hi in ((None, 1), (1, 'a'), (0, 2), ('a', 'b'), (2, 1), (1, 1)):
            yield _mk(s, T, field='f0', args=[lo, hi])
            yield _mk(s, T, field='f2', args=[lo, hi], complement=True)
    for v in (1, None, 'a', (1, 2), [1]):
        yield _mk('selecteq', T, field='f0', args=[v])
        yield _mk('selectne', T, field='f2', args=[v])
    yield _mk('selectin', T, field='f0', args=[[1, None, 'x']])
    yield _mk('selectnotin', T, field='f0', args=[(1, 'x')], complement=True)
    yield _mk('selectis', T, field='f0', args=[None])
    yield _mk('selectisnot', T, field='f1', args=[None])
    yield _mk('selectisinstance', T, field='f0', args=['int'])
    yield _mk('selectisinstance', T, field='f0', args=[('int', 'str')])
    yield _mk('selectcontains', [['f0', 'f1'], ['abc', 1], ['b', 2], ['', 3], ['ca', 4]], field='f0', args=['a'])
    for s in UNARY_SELECTORS:
        yield _mk(s, T, field='f0')
        yield _mk(s, T, field='f2', complement=True)
    for p in PREDS:
        yield _mk('select-callable', T, args=[p], missing='MISSING')
        yield _mk('select-callable', T, args=[p], complement=True)
    yield _mk('select-expr', T, args=['{f0} == 1'])
    yield _mk('select-expr', T, args=["{f1} is None or {f2} is None"], complement=True)
    for p in VPREDS:
        yield _mk('select-field', T, field='f2', args=[p], missing='MISSING')
        yield _mk('biselect', T, field='f1', args=[p], missing='MISSING')
    yield _mk('select-multifield', T, field=('f0', 'f1'), args=['truthy'])
    yield _mk('facet', [['k', 'v'], [1, 'a'], [2, 'b'], [1, 'c'], [None, 'd'], [1.0, 'e'], ['x', 'f']], field='k')
    yield _mk('facet', [['k', 'v'], [1, 'a'], [2], [], [1, 'c']], field='v')
    FT = [['k', 'v', 'w'], [1, 'a', 'x'], [2, 'b', 'x'], [1, 'c', 'y'], [None, 'd', 'x'], ['x', 'a', 'y'], [2, 'b', 'y']]
    for fld in (['k'], ('k',), [0], 1, ('k', 'w'), ['v', 'w'], 'w'):
        yield _mk('facet', FT, field=fld)
    for n in range(0, 6):
        yield _mk('rowlenselect', T, args=[n])
        yield _mk('rowlenselect', T, args=[n], complement=True)
    S = [['f0', 'f1'], ['orange', 12], ['mango', 42], ['Banana', None], ['', 'an']]
    yield _mk('search', S, args=['an'])
    yield _mk('search', S, args=['AN', 'I'])
    yield _mk('search', T, args=['1'])
    yield _mk('search-field', S, field='f0', args=['an'])
    yield _mk('search-field', S, field=('f0', 'f1'), args=['^.?an'])
    # the field by position (index 0 included), where another column would match too
    S2 = [['code', 'note', 'n'], ['ab1', 'xx', 1], ['zz', 'ab2', 2], ['q', 'q', 'ab'], ['ab', 'ab', 3], ['', 'b', 4]]
    for fld in (0, 1, 2, 'code', (0,), [1, 2], (0, 2)):
        for pat_ in ('ab', '^$', 'q|1'):
            yield _mk('search-field', S2, field=fld, args=[pat_])
            yield _mk('searchcomplement', S2, field=fld, args=[pat_])
    yield _mk('searchcomplement', S, args=['an'])
    yield _mk('searchcomplement', S, field='f0', args=['an'])
    for q in CTX:
        yield _mk('selectusingcontext', T, args=[q])
        yield _mk('selectusingcontext', [['f0'], [1]], args=[q])
        yield _mk('selectusingcontext', [['f0']], args=[q])
    vals = [None, 0, 1, 2, 5]
    for tbl in (T, [['f0']], [['f0'], [1]]):
        n = len(tbl) - 1
        for a in vals:
            yield _mk('rowslice', tbl, args=[a]) if a is not None else _mk('rowslice', tbl, args=[None])
            yield _mk('rowslice', tbl, args=[])
            for b in vals:
                yield _mk('rowslice', tbl, args=[a, b])
                for c in (None, 1, 2, 5):
                    yield _mk('rowslice', tbl, args=[a, b, c])
        for k in range(0, n + 3):
            yield _mk('head', tbl, args=[k])
            yield _mk('tail', tbl, args=[k])
            yield _mk('skip', tbl, args=[k])
    # random
    rng = ctx.rng('random')
    field_sel = ORDER_SELECTORS + RANGE_SELECTORS + ['selecteq', 'selectne', 'selectin', 'selectnotin', 'selectis', 'selectisnot', 'selectisinstance'] + UNARY_SELECTORS
    for i in range(ctx.pick(80000, 1000000)):
        pool = rng.sample(gen.POOL, rng.randint(3, 7)) + [None]
        nf = rng.randint(1, 4)
        t = gen.table(rng, nrows=rng.randint(0, 7), nfields=nf, pool=pool, ragged=0.3 if rng.random() < 0.5 else 0.0)
        s = field_sel[i % len(field_sel)]
        f = rng.choice(t[0])
        r_ = rng.random()
        if r_ < 0.2:
            f = t[0].index(f)
        elif r_ < 0.3:
            f = rng.choice([[f], (f,), [t[0].index(f)]])      # a one-element sequence selects the same single field
        v = rng.choice(pool + [rng.choice(gen.POOL)])
        v2 = rng.choice(pool + [rng.choice(gen.POOL)])
        kw = {'field': f, 'complement': rng.random() < 0.4}
        if rng.random() < 0.3:
            kw['missing'] = rng.choice(pool + ['MISSING'])
        if s in ORDER_SELECTORS or s in ('selecteq', 'selectne'):
            kw['args'] = [v]
        elif s in RANGE_SELECTORS:
            kw['args'] = [v, v2]
        elif s in ('selectin', 'selectnotin'):
            kw['args'] = [[x for x in rng.sample(pool, rng.randint(0, 3))]]
        elif s in ('selectis', 'selectisnot'):
            kw['args'] = [rng.choice([None, True, False])]
        elif s == 'selectisinstance':
            kw['args'] = [rng.choice(['int', 'str', 'float', 'NoneType', ('int', 'float'), 'tuple', 'bytes'])]
        if rng.random() < 0.2:
            kw['via'] = rng.choice(['method', 'alias', 'alias'])
        yield _mk(s, t, **kw)
    # expression-string predicates: {name} stands for the value of the field of that *name*, whatever the name looks like
    # (digits only, spaces, dots, a Python keyword), and for `missing` where the row has no such cell
    EXPRS = ['{%(a)s} == {%(b)s}', '{%(a)s} is None', '{%(a)s} in (1, "a", None)', 'len(str({%(a)s})) > 1 and {%(b)s} != {%(a)s}',
             '{%(a)s} == "MISSING" or {%(b)s} == 1', 'str({%(a)s}) < str({%(b)s})']
    for i in range(ctx.pick(4000, 40000)):
        nf = rng.randint(1, 4)
        names = rng.sample(['f0', 'f1', '0', '1', '2', '2019', '2020', 'a b', 'x.y', 'class', 'é', 10], nf)
        pool = [None, 1, 2, 'a', 'ab', 1.0, '', 'MISSING']
        t = [names] + [[rng.choice(pool) for _ in range(nf)][:(rng.randint(0, nf) if rng.random() < 0.25 else nf)] for _ in range(rng.randint(0, 6))]
        a, b = str(rng.choice(names)), str(rng.choice(names))
        yield _mk('select-expr', t, args=[rng.choice(EXPRS) % {'a': a, 'b': b}], complement=rng.random() < 0.4, missing=rng.choice([None, 'MISSING']))
    for i in range(ctx.pick(20000, 200000)):
        pool = rng.sample(gen.SCALAR_POOL, 4) + [None]
        t = gen.table(rng, nrows=rng.randint(0, 7), nfields=rng.randint(1, 3), pool=pool, ragged=0.3 if rng.random() < 0.5 else 0.0)
        r = i % 6
        ra = 'records' if rng.random() < 0.2 else None
        if r == 0:
            yield _mk('select-callable', t, args=[rng.choice(sorted(PREDS))], complement=rng.random() < 0.5, missing=rng.choice([None, 'MISSING']), rows_as=ra)
        elif r == 1:
            yield _mk('select-field', t, field=rng.choice(t[0]), args=[rng.choice(sorted(VPREDS))], complement=rng.random() < 0.5,
                      missing=rng.choice([None, 'MISSING']))
        elif r == 2:
            yield _mk('biselect', t, field=rng.choice(t[0]), args=[rng.choice(sorted(VPREDS))], missing=rng.choice([None, 'MISSING']))
        elif r == 3:
            yield _mk('selectusingcontext', t, args=[rng.choice(sorted(CTX))])
        elif r == 4:
            a, b, c = rng.choice(vals), rng.choice(vals), rng.choice([None, 1, 2, 3])
            yield _mk('rowslice', t, args=[a, b, c])
        else:
            yield _mk(rng.choice(['head', 'tail', 'skip']), t, args=[rng.randint(0, 8)])


# ---------------------------------------------------------------------------

def _cell(row, hdr, field, missing):
    idx = gen.resolve_key(hdr, field)
    try:
        vals = [row[i] for i in idx]
    except IndexError:
        return missing, True
    return (vals[0] if len(vals) == 1 else tuple(vals)), False


def _value_pred(sel, args):
    mc = util.model_cmp
    if sel == 'selectlt':
        return lambda v: mc(v, args[0]) < 0
    if sel == 'selectle':
        return lambda v: mc(v, args[0]) <= 0
    if sel == 'selectgt':
        return lambda v: mc(v, args[0]) > 0
    if sel == 'selectge':
        return lambda v: mc(v, args[0]) >= 0
    if sel == 'selectrangeopenleft':
        return lambda v: mc(args[0], v) <= 0 and mc(v, args[1]) < 0
    if sel == 'selectrangeopenright':
        return lambda v: mc(args[0], v) < 0 and mc(v, args[1]) <= 0
    if sel == 'selectrangeopen':
        return lambda v: mc(args[0], v) <= 0 and mc(v, args[1]) <= 0
    if sel == 'selectrangeclosed':
        return lambda v: mc(args[0], v) < 0 and mc(v, args[1]) < 0
    if sel == 'selecteq':
        return lambda v: v == args[0]
    if sel == 'selectne':
        return lambda v: v != args[0]
    if sel == 'selectin':
        return lambda v: v in args[0]
    if sel == 'selectnotin':
        return lambda v: v not in args[0]
    if sel == 'selectis':
        return lambda v: v is args[0]
    if sel == 'selectisnot':
        return lambda v: v is not args[0]
    if sel == 'selectisinstance':
        ty = args[0]
        ty = tuple(TYPES[x] for x in ty) if isinstance(ty, tuple) else TYPES[ty]
        return lambda v: isinstance(v, ty)
    if sel == 'selectcontains':
        return lambda v: args[0] in v
    if sel == 'selecttrue':
        return lambda v: bool(v)
    if sel == 'selectfalse':
        return lambda v: not bool(v)
    if sel == 'selectnone':
        return lambda v: v is None
    if sel == 'selectnotnone':
        return lambda v: v is not None
    raise KeyError(sel)


def _petl_args(sel, args):
    if sel == 'selectisinstance':
        ty = args[0]
        return [tuple(TYPES[x] for x in ty) if isinstance(ty, tuple) else TYPES[ty]]
    return list(args)


def _ms(rows):
    return Counter(util.crow(r) for r in rows)


LIVE = [None]       # the plain list the current case's views are built over


def _twice(build):
    """rows of two passes over the same view: a selection must not change on a second pass"""
    return util.attempt_rows_twice(build, live=LIVE[0])


def _diff(name, got, exp_rows, hdr, extra=None):
    if isinstance(got, util.Raised):
        d = {'kind': 'exception', 'fn': name, 'detail': got.text, 'where': got.where}
    elif util.crows(got) != util.crows([tuple(hdr)] + exp_rows):
        d = {'kind': 'selection-differs', 'fn': name, 'expected': [tuple(hdr)] + exp_rows, 'observed': got}
    else:
        return None
    if extra:
        d.update(extra)
    return d


def judge(case, ctx):
    e0 = util.EDITED[0]
    try:
        return _judge(case, ctx)
    finally:
        LIVE[0] = None
        if util.EDITED[0] != e0:
            ctx.seen('views-re-read-after-an-in-place-edit-of-the-source', util.EDITED[0] - e0)


def _judge(case, ctx):
    sel = case['sel']
    ctx.op('sel:' + sel)
    table = copy.deepcopy(case['table'])
    hdr = table[0]
    rows = [tuple(r) for r in table[1:]]
    if case.get('rows_as') == 'records':
        # data rows that are already Record objects, made by some other view under another header and another `missing`:
        # a row predicate reads them by *its* input's header and *its* `missing`.  (Only the row-predicate form: the field
        # forms index the row object itself, and a Record answers an absent index with its own `missing`; rows that are
        # Records of a different `missing` are outside what the property's "missing cells" can mean there.)
        from petl.util.base import Record
        stale = ['zz%d' % i for i in range(len(hdr))][::-1]
        table = [hdr] + [Record(r, stale, missing='STALE') for r in rows]
        ctx.seen('rows-are-Record-objects')
    if sel in ORDER_SELECTORS + RANGE_SELECTORS + VALUE_SELECTORS and case.get('rows_as') != 'records' and int(util.fp(case)[2:4], 16) % 6 == 0:
        # some text / date cells are instances of a subclass of str / date: equal to, and ordered like, the plain values
        table = util.with_subtypes(table)
        rows = [tuple(r) for r in table[1:]]
        ctx.seen('cells-of-a-str-or-date-subclass')
    field, args, comp, missing = case['field'], case['args'], case['complement'], case['missing']
    if int(util.fp(case)[6:8], 16) % 7 == 0 and field is not None:
        field = util.names_as_subtypes(field)       # the field name(s) as instances of a str subclass
        ctx.seen('field-names-given-as-str-subclass-instances')
    LIVE[0] = table if (type(table) is list and case.get('rows_as') != 'records') else None
    out = []
    kw = {}
    if comp:
        kw['complement'] = True
        ctx.seen('complement')

    def mark(exp):
        if 0 < len(exp) < len(rows):
            ctx.mark_nontrivial()

    if isinstance(field, (list, tuple)) and len(field) == 1:
        ctx.seen('field-given-as-a-one-element-sequence')
    if sel in ORDER_SELECTORS + RANGE_SELECTORS + VALUE_SELECTORS + UNARY_SELECTORS:
        pred = _value_pred(sel, args)
        exp = []
        for r in rows:
            v, was_missing = _cell(r, hdr, field, missing)
            if was_missing:
                ctx.seen('ragged-row-read-as-missing')
            if bool(pred(v)) != comp:
                exp.append(r)
        mark(exp)
        if args and args[0] is None:
            ctx.seen('reference-value-none')
        if args and rows and any(type(_cell(r, hdr, field, missing)[0]) is not type(args[0]) for r in rows):
            ctx.seen('reference-value-foreign-type')
        # the specialised selectors take no `missing`; it travels through select()'s default (None)
        if missing is not None:
            exp = []
            for r in rows:
                v, _ = _cell(r, hdr, field, None)
                if bool(pred(v)) != comp:
                    exp.append(r)
        fn = getattr(petl, sel)
        via = case.get('via')
        if via:
            # the fluent forms: etl.wrap(t).selectge(...) and the short aliases etl.wrap(t).ge(...) are the same selector
            mname = ALIASES.get(sel, sel) if via == 'alias' else sel
            ctx.seen('selector-called-as-a-table-method')
            if mname != sel:
                ctx.seen('selector-called-by-its-short-alias')
            fn = lambda t, *a, **k: getattr(petl.wrap(t), mname)(*a, **k)      # noqa: E731
        got = _twice(lambda: fn(table, field, *_petl_args(sel, args), **kw))
        d = _diff(sel, got, exp, hdr, {'args': args, 'field': field, 'complement': comp})
        if d:
            out.append(d)
        # partition with the complement
        got_c = util.attempt_rows(lambda: fn(copy.deepcopy(table), field, *_petl_args(sel, args), complement=not comp))
        if not isinstance(got, util.Raised) and not isinstance(got_c, util.Raised):
            if _ms(got[1:]) + _ms(got_c[1:]) != _ms(rows):
                out.append({'kind': 'selection+complement-not-a-partition', 'fn': sel, 'selection': got[1:], 'complement': got_c[1:]})
        return out

    if sel in ('select-callable', 'select-expr'):
        log = []
        if sel == 'select-callable':
            p = PREDS[args[0]]

            def where(rec):
                log.append(rec)
                return p(rec)
        else:
            where = args[0]
        if missing is not None:
            kw['missing'] = missing
        flds = [str(f) for f in hdr]

        class Rec(tuple):
            pass

        def ref_rec(r):
            class R(tuple):
                flds_ = flds

                def __getitem__(s, f):
                    i = f if isinstance(f, int) else flds.index(f)
                    try:
                        return tuple.__getitem__(s, i)
                    except IndexError:
                        return missing
            x = R(r)
            x.flds = flds
            return x
        if sel == 'select-callable':
            exp = [r for r in rows if bool(PREDS[args[0]](ref_rec(r))) != comp]
        else:
            code = args[0]
            for f in flds:
                code = code.replace('{%s}' % f, "rec['%s']" % f)
            if any(f.isdigit() for f in flds if '{%s}' % f in args[0]):
                ctx.seen('select-expr:field-name-made-of-digits')
            exp = [r for r in rows if bool(eval(code, {}, {'rec': ref_rec(r)})) != comp]
        mark(exp)
        got = util.attempt_rows(lambda: petl.select(table, where, **kw))
        d = _diff(sel, got, exp, hdr, {'args': args})
        if d:
            out.append(d)
        if sel == 'select-callable' and not isinstance(got, util.Raised):
            ctx.seen('recording-predicate-rows', len(log))
            if [tuple(x) for x in log] != rows:
                out.append({'kind': 'predicate-not-handed-every-row-once-in-order', 'handed': [tuple(x) for x in log], 'rows': rows})
            for rec, r in zip(log, rows):
                for i, f in enumerate(flds):
                    if flds.index(f) != i:
                        continue
                    want = r[i] if i < len(r) else missing
                    if util.canon(rec[f]) != util.canon(want) or util.canon(rec[i]) != util.canon(want):
                        out.append({'kind': 'record-access-differs', 'row': r, 'field': f})
                        break
        return out[:4]

    if sel in ('select-field', 'select-multifield', 'biselect'):
        p = VPREDS[args[0]]
        if missing is not None:
            kw['missing'] = missing
        sel_rows, comp_rows = [], []
        for r in rows:
            v, was_missing = _cell(r, hdr, field, missing)
            if was_missing:
                ctx.seen('ragged-row-read-as-missing')
            (sel_rows if bool(p(v)) else comp_rows).append(r)
        if sel == 'biselect':
            mark(sel_rows)
            kw.pop('complement', None)
            res = util.attempt(lambda: petl.biselect(table, field, p, **kw))
            if isinstance(res, util.Raised):
                return {'kind': 'exception', 'fn': 'biselect', 'detail': res.text, 'where': res.where}
            for name, view, exp in (('biselect[0]', res[0], sel_rows), ('biselect[1]', res[1], comp_rows)):
                d = _diff(name, util.attempt_rows(lambda: view), exp, hdr)
                if d:
                    out.append(d)
            return out
        exp = comp_rows if comp else sel_rows
        mark(exp)
        got = util.attempt_rows(lambda: petl.select(table, field, p, **kw))
        d = _diff(sel, got, exp, hdr, {'field': field})
        return d

    if sel == 'facet':
        res = util.attempt(lambda: petl.facet(table, field))
        if isinstance(res, util.Raised):
            return {'kind': 'exception', 'fn': 'facet', 'detail': res.text, 'where': res.where}
        total = Counter()
        for k, view in res.items():
            exp = [r for r in rows if _cell(r, hdr, field, None)[0] == k]
            d = _diff('facet[%r]' % (k,), util.attempt_rows(lambda: view), exp, hdr)
            if d:
                out.append(d)
            else:
                total += _ms(exp)
            if 0 < len(exp) < len(rows):
                ctx.mark_nontrivial()
        if not out and total != _ms(rows):
            out.append({'kind': 'facet-tables-not-a-partition', 'keys': list(res)})
        return out

    if sel == 'rowlenselect':
        exp = [r for r in rows if (len(r) == args[0]) != comp]
        mark(exp)
        return _diff(sel, _twice(lambda: petl.rowlenselect(table, args[0], **kw)), exp, hdr)

    if sel in ('search', 'search-field', 'searchcomplement'):
        pat = args[0]
        flags = re.I if len(args) > 1 else 0
        prog = re.compile(pat, flags)
        if field is None:
            test = lambda r: any(prog.search(str(v)) for v in r)  # noqa: E731
            pa = [pat]
        else:
            idx = gen.resolve_key(hdr, field)
            test = lambda r: any(prog.search(str(r[i])) for i in idx)  # noqa: E731
            pa = [field, pat]
        neg = sel == 'searchcomplement'
        exp = [r for r in rows if bool(test(r)) != neg]
        mark(exp)
        fk = {'flags': flags} if flags else {}
        fn = petl.searchcomplement if neg else petl.search
        got = util.attempt_rows(lambda: fn(table, *pa, **fk))
        d = _diff(sel, got, exp, hdr)
        if d:
            out.append(d)
        other = util.attempt_rows(lambda: (petl.search if neg else petl.searchcomplement)(copy.deepcopy(case['table']), *pa, **fk))
        if not isinstance(got, util.Raised) and not isinstance(other, util.Raised) and _ms(got[1:]) + _ms(other[1:]) != _ms(rows):
            out.append({'kind': 'search+searchcomplement-not-a-partition'})
        return out

    if sel == 'selectusingcontext':
        q = CTX[args[0]]
        exp = []
        for i, r in enumerate(rows):
            p = rows[i - 1] if i > 0 else None
            n = rows[i + 1] if i + 1 < len(rows) else None
            if q(p, r, n):
                exp.append(r)
        mark(exp)
        return _diff(sel, _twice(lambda: petl.selectusingcontext(table, q)), exp, hdr)

    if sel == 'rowslice':
        a = list(args)
        try:
            exp = list(itertools.islice(rows, *a)) if a else list(rows)       # no slice arguments at all: every row
        except ValueError:
            return None
        mark(exp)
        return _diff(sel, _twice(lambda: petl.rowslice(table, *a)), exp, hdr, {'args': a})
    if sel == 'head':
        exp = rows[:args[0]]
        mark(exp)
        return _diff(sel, _twice(lambda: petl.head(table, args[0])), exp, hdr)
    if sel == 'tail':
        exp = rows[len(rows) - args[0]:] if args[0] and args[0] < len(rows) else (rows if args[0] else [])
        mark(exp)
        return _diff(sel, _twice(lambda: petl.tail(table, args[0])), exp, hdr, {'n': args[0]})
    if sel == 'skip':
        allrows = [tuple(hdr)] + rows
        exp = allrows[args[0]:]
        got = util.attempt_rows(lambda: petl.skip(table, args[0]))
        if isinstance(got, util.Raised):
            return {'kind': 'exception', 'fn': 'skip', 'detail': got.text, 'where': got.where}
        if util.crows(got) != util.crows(exp):
            return {'kind': 'selection-differs', 'fn': 'skip', 'expected': exp, 'observed': got}
        if 0 < args[0] < len(allrows):
            ctx.mark_nontrivial()
        return None
    raise KeyError(sel)
