"""C20  Tables with a header and no data rows are handled by every operator.

Catalogue sweep: every operator form x every non-empty subset of its input
positions made header-only x header/container shapes x strategy variants.
Oracle: reference models where they exist (joins, set operations, cat / stack /
annex / mergesort / merge), explicit zero-row expectations for operators whose
header depends on the data, and otherwise the generic rule "the header the
same call yields on a non-empty table, and no data rows".
"""
from __future__ import annotations

import copy
from collections import Counter, OrderedDict

import petl

from petlmon import catalogue as C
from petlmon import oracles, probes, util

ID = 'C20'
LEVEL = 'exploration'
RULE = ('cases = (catalogue entry, subset of input positions made header-only, table shape in {lists, tuples, 4 fields, generator-'
        'backed container}); exhaustive over the catalogue (%d entries). Non-trivial: every case (each has at least one header-only '
        'input); distinct = SHA-1 of the case.' % len(C.ENTRIES))
ASSUMPTIONS = ['operators whose third-party dependency is not installed are outside the catalogue (DESIGN 2.3)',
               'valuecount() on zero rows (0/0 frequency) is the recorded known finding F18']
REQUIRED = ['entries-judged', 'binary:left-only-empty', 'binary:right-only-empty', 'binary:both-empty', 'reference-model-used',
            'generic-rule-used', 'explicit-expectation-used']
EXHAUSTIVE = {'quick': True, 'thorough': True}
SHAPES = ['lists', 'tuples', 'four-fields', 'generator', 'none-keys', 'chunked-sorts', 'method-form', 'blank-row', 'composed']

H3 = ('f0', 'f1', 'f2')

# explicit zero-row expectations (reviewed against the docstrings); unary entries only
EXPLICIT = {
    'annex1': [H3 + ('q',), (None, None, None, 1)],
    'addcolumn': [H3 + ('q',), (None, None, None, 1), (None, None, None, 2), (None, None, None, 3)],
    'addcolumn-missing': [H3 + ('q',), ('NA', 'NA', 'NA', 1), ('NA', 'NA', 'NA', 2), ('NA', 'NA', 'NA', 3)],
    'addcolumn-index-missing': [('f0', 'q', 'f1', 'f2'), ('-', 1, '-', '-'), ('-', 2, '-', '-'), ('-', 3, '-', '-')],
    'annex1-missing': [H3 + ('q',), ('NA', 'NA', 'NA', 1)],
    'pushheader': [('a', 'b', 'c'), H3],
    'skip': [],
    'unpackdict': [('f0', 'f2')],
    'recast': [('f0',)],
    'recast-variables': [('f0',)],
    'transpose': [('f0',), ('f1',), ('f2',)],
    'pivot': [('f0',)],
    'mergesort1': [H3, (2, 'm', 'n')],
    'merge1': [H3, (2, 'm', 'n')],
    'aggregate-none-len': [('value',), (0,)],
    'aggregate-none-list': [('value',), ([],)],
    'parsecounts': [('type', 'count', 'errors'), ('int', 0, 0), ('float', 0, 0)],
}
SCALARS = {
    'issorted': True, 'isunique': True, 'header': H3, 'fieldnames': H3, 'nrows': 0,
    'columns': OrderedDict([('f0', []), ('f1', []), ('f2', [])]), 'facetcolumns': {}, 'rowgroupby': [], 'rowgroupby-value': [],
    'listoflists': [list(H3)], 'tupleoftuples': (H3,), 'listoftuples': [H3], 'tupleoflists': (list(H3),), 'lookup': {}, 'lookupone': {}, 'dictlookup': {}, 'dictlookupone': {},
    'recordlookup': {}, 'recordlookupone': {}, 'valuecounter': Counter(), 'typecounter': Counter(), 'stringpatterncounter': Counter(),
    'typeset': set(), 'limits': (None, None), 'diffheaders': ({'zz'}, {'f1', 'f2'}), 'diffvalues': ({1, 99}, set()),
}


def cases(ctx):
    for e in C.ENTRIES.values():
        subsets = [[0]] if e.arity == 1 else [[0], [1], [0, 1]]
        for sub in subsets:
            for shape in SHAPES:
                if shape == 'none-keys' and not (e.arity == 2 and e.second in ('join', 'joinrev')):
                    continue
                if shape == 'blank-row' and not (e.arity == 2 and len(sub) == 1 and (e.ragged or e.group == 'setops') and e.kind in ('view', 'multi')):
                    continue        # a completely empty row (a blank line) on the side that has rows, for the operators that take ragged rows
                yield {'op': e.name, 'empty': sub, 'shape': shape}


def _shape(table, shape, extra):
    t = [list(r) for r in table]
    if shape == 'four-fields':
        t = [r + ([extra] if i == 0 else ['e%d' % i]) for i, r in enumerate(t)]
    if shape == 'tuples':
        return tuple(tuple(r) for r in t)
    if shape == 'generator':
        return probes.CountingSource(t)
    if shape == 'composed':
        # the input is itself the output of other operators: a header-only *view* (three stages deep), not a list
        return petl.cut(petl.rowslice(petl.cat(t), None), *range(len(t[0])))
    return t


def _inputs(e, case):
    a = C.table_a(4)
    b = C.second_for(e, 3) if e.arity == 2 else None
    if case['shape'] == 'none-keys' and e.arity == 2 and e.second in ('join', 'joinrev'):
        # the non-empty side carries rows whose key is None (the value an exhausted side's key placeholder also has)
        a[1][0] = None
        a[3][0] = None
        b[1][b[0].index('f0')] = None
    if case['shape'] == 'blank-row':
        a.insert(2, [])
        if b is not None:
            b.insert(1, [])
    if e.name.endswith('-presorted'):
        # the precondition of presorted=True: rows in (whole-row, hence also f0) order
        a = a[:1] + sorted(a[1:], key=lambda r: util.model_key(tuple(r)))
        if b is not None:
            b = b[:1] + sorted(b[1:], key=lambda r: util.model_key(tuple(r)))
    if 0 in case['empty']:
        a = a[:1]
    if b is not None and 1 in case['empty']:
        b = b[:1]
    return a, b


def _ms(rows):
    return Counter(util.crow(r) for r in rows)


def _ref_binary(name, a, b):
    """-> (header, rows, ordered) for binary view entries; None if no model"""
    J = {'join': ('join', {}), 'leftjoin': ('leftjoin', {}), 'rightjoin': ('rightjoin', {}), 'outerjoin': ('outerjoin', {}),
         'lookupjoin': ('lookupjoin', {}), 'join-natural': ('join', {}), 'join-buffered': ('join', {}),
         'join-lrkey': ('join', {'lprefix': 'l_', 'rprefix': 'r_'}), 'outerjoin-missing': ('outerjoin', {'missing': 'M'}),
         'hashjoin': ('join', {}), 'hashjoin-nocache': ('join', {}), 'hashleftjoin': ('leftjoin', {}), 'hashrightjoin': ('rightjoin', {}),
         'hashlookupjoin': ('lookupjoin', {}), 'hashjoin-natural': ('join', {})}
    for suffix in ('-presorted', '-keypos'):
        if name.endswith(suffix):
            name = name[:-len(suffix)]
    if name.endswith('-missing') and name[:-len('-missing')] in ('leftjoin', 'rightjoin', 'lookupjoin', 'hashleftjoin', 'hashrightjoin', 'hashlookupjoin'):
        base = name[:-len('-missing')]
        h, r = oracles.ref_join(base[4:] if base.startswith('hash') else base, a, b, 'f0', 'f0', missing='M')
        return h, r, False
    if name == 'hashrightjoin-lrkey-missing':
        h, r = oracles.ref_join('rightjoin', a, b, 'f0', 'f0', missing='M')
        return h, r, False
    if name in J:
        op, kw = J[name]
        h, r = oracles.ref_join(op, a, b, 'f0', 'f0', **kw)
        return h, r, False
    if name in ('antijoin', 'hashantijoin'):
        h, r = oracles.ref_antijoin(a, b, 'f0', 'f0')
        return h, r, False
    if name in ('crossjoin', 'crossjoin-prefix'):
        h, r = oracles.ref_crossjoin([a, b], prefix=name.endswith('prefix'))
        return h, r, True
    ra, rb = [tuple(r) for r in a[1:]], [tuple(r) for r in b[1:]]
    ha, hb = list(a[0]), list(b[0])
    if name == 'annex':
        rows = []
        for i in range(max(len(ra), len(rb))):
            x = (tuple(ra[i])[:len(ha)] + (None,) * (len(ha) - len(ra[i]))) if i < len(ra) else (None,) * len(ha)
            y = (tuple(rb[i])[:len(hb)] + (None,) * (len(hb) - len(rb[i]))) if i < len(rb) else (None,) * len(hb)
            rows.append(x + y)
        return ha + hb, rows, True
    if name in ('cat2', 'mergesort', 'mergesort-nokey', 'merge'):
        outhdr = list(ha) + [f for f in hb if f not in ha]
        rows = []
        for h, rs in ((ha, ra), (hb, rb)):
            for r in rs:
                rows.append(tuple(r[h.index(f)] if f in h and h.index(f) < len(r) else None for f in outhdr))
        if name == 'cat2':
            return outhdr, rows, True
        if name == 'mergesort':
            return outhdr, sorted(rows, key=lambda r: util.model_key(r[0])), True
        if name == 'mergesort-nokey':
            return outhdr, sorted(rows, key=util.model_key), True
        # merge = mergeduplicates(mergesort(...), key)
        out = []
        keys = sorted({r[0] for r in rows}, key=util.model_key)
        for k in keys:
            grp = [r for r in rows if r[0] == k]
            o = [k]
            for i in range(1, len(outhdr)):
                vals = []
                for r in grp:
                    if r[i] is not None and r[i] not in vals:
                        vals.append(r[i])
                o.append(vals[0] if len(vals) == 1 else (None if not vals else ('CONFLICT', frozenset(vals))))
            out.append(tuple(o))
        return outhdr, out, True
    if name == 'stack2':
        n = len(ha)
        rows = [tuple(r)[:n] + (None,) * (n - len(r)) for r in ra + rb]
        return ha, rows, True
    ca, cb = Counter(ra), Counter(rb)
    if name in ('complement', 'hashcomplement', 'recordcomplement'):
        return ha, list((ca - cb).elements()), False
    if name == 'complement-strict':
        return ha, [r for r in ra if r not in cb], False
    if name in ('intersection', 'hashintersection'):
        return ha, list((ca & cb).elements()), False
    return None


def _norm_conflict(rows):
    from petl.transform.reductions import Conflict
    out = []
    for r in rows:
        out.append(tuple(('CONFLICT', frozenset(c)) if isinstance(c, Conflict) else c for c in r))
    return out


def judge(case, ctx):
    e = C.by_name(case['op'])
    ctx.mark_nontrivial()
    ctx.seen('entries-judged')
    ctx.op('group:' + e.group)
    a, b = _inputs(e, case)
    if case['shape'] == 'chunked-sorts':
        # every sort inside the operator takes the temp-file path (the non-empty side has more than one row)
        from petl import config as pcfg
        pcfg.sort_buffersize = 1
    if e.arity == 2:
        ctx.seen({(0,): 'binary:left-only-empty', (1,): 'binary:right-only-empty', (0, 1): 'binary:both-empty'}[tuple(case['empty'])])
    shape = case['shape']
    four = shape == 'four-fields'

    def srcs():
        s = [_shape(copy.deepcopy(a), shape, 'f3')]
        if b is not None:
            s.append(_shape(copy.deepcopy(b), shape, 'g3' if e.second in ('join', 'joinrev') else 'f3'))
        return s

    def materialise(r):
        if e.kind == 'view':
            return util.rows_of(r)
        if e.kind == 'items':
            return [x for x in iter(r)]
        if e.kind == 'multi':
            return [util.rows_of(v) for v in r]
        if e.kind == 'dictviews':
            return {k: util.rows_of(v) for k, v in r.items()}
        return r
    if shape == 'method-form':
        # the fluent form: etl.wrap(t).<operator>(...) must be the same operator
        ctx.seen('method-form')

        def build_and_read():
            with C.method_form():
                return materialise(e.build(*srcs()))
        got = util.attempt(build_and_read)
    else:
        got = util.attempt(lambda: materialise(e.build(*srcs())))
    if isinstance(got, util.Raised):
        return {'kind': 'exception', 'detail': got.text, 'where': got.where, 'empty': case['empty']}

    # ---- expectations
    if e.kind == 'scalar':
        if e.name == 'stats':
            exp = dict(count=0, errors=0, sum=0, min=None, max=None, mean=0, pvariance=0, pstdev=0.0)
            obs = got._asdict() if hasattr(got, '_asdict') else got
            ctx.seen('explicit-expectation-used')
            if obs != exp or any(type(obs[k]) is not type(v) for k, v in exp.items()):
                return {'kind': 'zero-row-result-differs', 'expected': exp, 'observed': repr(got)}
            return None
        if e.name in SCALARS and not four:
            ctx.seen('explicit-expectation-used')
            exp = SCALARS[e.name]
            if got != exp or type(got) is not type(exp) and not isinstance(got, type(exp)):
                return {'kind': 'zero-row-result-differs', 'expected': repr(exp), 'observed': repr(got)}
        if e.group == 'vis':
            # a rendering of a table without data rows still shows the table: every field name appears
            ctx.seen('explicit-expectation-used')
            if not isinstance(got, str) or not all(h in got for h in H3):
                return {'kind': 'zero-row-result-differs', 'expected': 'a rendering that names the fields %r' % (H3,), 'observed': repr(got)}
            lines = [l_ for l_ in got.split('\n') if l_.strip()]
            if e.name in ('look', 'lookall', 'lookstr', 'lookallstr', 'repr(wrap)', 'str(wrap)'):
                # the grid: a border, the line of names, the '=' rule - and then one line plus one '-' border per data row, of which
                # there are none
                shape_ = [l_[:2] for l_ in lines]
                if shape_ != ['+-', '| ', '+=']:
                    return {'kind': 'zero-row-result-differs', 'expected': "a grid of three lines: '+-...', '| names |', '+=...'", 'observed': repr(got)}
            elif e.name in ('look-minimal', 'lookall-minimal'):
                if len(lines) != 1:
                    return {'kind': 'zero-row-result-differs', 'expected': 'the line of names and nothing else', 'observed': repr(got)}
            elif e.name in ('see', 'see-index-header'):
                if not all(l_.rstrip().endswith(':') for l_ in lines):
                    return {'kind': 'zero-row-result-differs', 'expected': "one 'name:' line per field with no values after it", 'observed': repr(got)}
        return None          # other helpers: exception-freeness is the claim
    if e.kind == 'items':
        if got != []:
            return {'kind': 'items-from-a-table-without-rows', 'observed': got}
        ctx.seen('generic-rule-used')
        return None
    if e.kind == 'dictviews':
        if got != {}:
            return {'kind': 'zero-row-result-differs', 'expected': {}, 'observed': got}
        return None

    # full (non-empty) twin run for the generic header rule
    def full_inputs():
        s = [_shape(C.table_a(4), shape, 'f3')]
        if e.arity == 2:
            s.append(_shape(C.second_for(e, 3), shape, 'g3' if e.second in ('join', 'joinrev') else 'f3'))
        return s
    if e.kind == 'multi':
        full = [util.rows_of(v) for v in e.build(*full_inputs())]
        out = []
        if e.arity == 2 and e.name in ('diff', 'recorddiff', 'diff-presorted'):
            ra, rb = [tuple(r) + (('e%d' % (i + 1),) if four else ()) for i, r in enumerate(a[1:])], [tuple(r) + (('e%d' % (i + 1),) if four else ()) for i, r in enumerate(b[1:])]
            exp = [list((Counter(rb) - Counter(ra)).elements()), list((Counter(ra) - Counter(rb)).elements())]
            ctx.seen('reference-model-used')
            for i in (0, 1):
                if util.crow(got[i][0]) != util.crow(full[i][0]) or _ms(got[i][1:]) != _ms(exp[i]):
                    out.append({'kind': 'zero-row-result-differs', 'part': i, 'expected': exp[i], 'observed': got[i]})
            return out
        for i, (g, f) in enumerate(zip(got, full)):
            if util.crows(g) != util.crows(f[:1]):
                out.append({'kind': 'zero-row-result-differs', 'part': i, 'expected': f[:1], 'observed': g})
        ctx.seen('generic-rule-used')
        return out
    # views
    if e.arity == 2:
        aa = [list(r) + ([('f3' if i == 0 else 'e%d' % i)] if four else []) for i, r in enumerate(a)]
        bb = [list(r) + ([(('g3' if e.second in ('join', 'joinrev') else 'f3') if i == 0 else 'e%d' % i)] if four else []) for i, r in enumerate(b)]
        ref = _ref_binary(e.name, aa, bb)
        if ref is not None:
            ctx.seen('reference-model-used')
            h, rows, ordered = ref
            g = _norm_conflict(got)
            bad = not g or util.crow(g[0]) != util.crow(h)
            if not bad:
                bad = (util.crows(g[1:]) != util.crows(rows)) if ordered else (_ms(g[1:]) != _ms(rows))
            if bad:
                return {'kind': 'zero-row-result-differs', 'expected': [tuple(h)] + rows, 'observed': got, 'empty': case['empty']}
            return None
    if e.name in EXPLICIT and not four:
        ctx.seen('explicit-expectation-used')
        exp = EXPLICIT[e.name]
        if util.crows(got) != util.crows(exp):
            return {'kind': 'zero-row-result-differs', 'expected': exp, 'observed': got}
        return None
    if e.hdrdep or e.name in EXPLICIT or (e.name == 'validate' and four):
        return None      # (validate: the 4-field shape legitimately fails its 3-field header constraint)  data-dependent header on a shape without an explicit expectation: exception-freeness only
    full = util.rows_of(e.build(*full_inputs()))
    ctx.seen('generic-rule-used')
    if util.crows(got) != util.crows(full[:1]):
        return {'kind': 'zero-row-result-differs', 'expected': full[:1], 'observed': got}
    return None
