"""C11  Execution-strategy arguments never change results.

Twin oracle: the default-argument call on a deep copy of the same inputs.
For every sort-backed operator and every generated input the full cross
product buffersize in {1..nrows+1, None} x cache x tempdir x
config.sort_buffersize x presorted (on inputs sorted with the reference sort)
must return the same header and the same rows in the same order.
Cache clause: histories of (edit source, full / partial pass) steps over
counting, editable sources: with cache=False every pass reflects the current
contents; with cache=True passes after a completed pass replay it and never
re-open a source that the completed pass had read to the end.
"""
from __future__ import annotations

import copy
import os
from collections import OrderedDict

import petl
from petl import config as pcfg

from petlmon import gen, probes, util

ID = 'C11'
LEVEL = 'exploration'
RULE = ('cases = (operator form, input tables, mode) with mode "cross" (the whole strategy cross product against the default call) or '
        '"history" (3-6 steps of full pass / partial pass / append / delete / change-key under cache on or off); %d operator forms; '
        'seeded random tables of 0-6 rows with duplicate, None and mixed-type keys. Non-trivial: the input has >= 2 rows and at least '
        'one strategy took the chunked (temp-file) path, or the history edits the source after a completed pass. Distinct = SHA-1.')
ASSUMPTIONS = ['presorted=True is only given inputs sorted by the key with the reference sort (rectangular tables)',
               'a source counts as cached only if the completed pass read it to the end']

_audit = None


def setup(ctx):
    global _audit
    _audit = probes.TempAudit()
    _audit.__enter__()
    os.makedirs(os.path.join(_audit.dir, 'sub'), exist_ok=True)


def teardown(ctx):
    if _audit is not None:
        _audit.__exit__(None, None, None)


# ---------------------------------------------------------------------------
# operator registry: name -> (arity, builder(srcs, **strategy), presort keys per input or None, kind)

def _agg_multi():
    return OrderedDict([('n', len), ('vs', ('v', list)), ('first_id', ('id', lambda vals: next(iter(vals), None)))])


OPS = OrderedDict()


def O(name, arity, fn, presort=None, kind='view', lexical=False, pad=None, marker=None):
    OPS[name] = {'arity': arity, 'fn': fn, 'presort': presort, 'kind': kind, 'lexical': lexical, 'pad': pad, 'marker': marker}


for _j in ('join', 'leftjoin', 'rightjoin', 'outerjoin', 'antijoin', 'lookupjoin'):
    O(_j, 2, (lambda f: lambda s, **kw: f(s[0], s[1], key='k', **kw))(getattr(petl, _j)), presort=['k', 'k'])
# the key is the last field and some left rows stop before it: lookupjoin squares rows up with `missing` first, so the filler is their key
O('lookupjoin-lastkey-missing', 2, lambda s, **kw: petl.lookupjoin(s[0], s[1], key='k', missing='a', **kw), presort=['k', 'k'], pad='a')
O('join-lrkey', 2, lambda s, **kw: petl.join(s[0], s[1], lkey='k', rkey=0, **kw), presort=['k', 'k'])
O('complement', 2, lambda s, **kw: petl.complement(s[0], s[1], **kw), presort=[None, None], lexical=True)
O('complement-strict', 2, lambda s, **kw: petl.complement(s[0], s[1], strict=True, **kw), presort=[None, None], lexical=True)
O('intersection', 2, lambda s, **kw: petl.intersection(s[0], s[1], **kw), presort=[None, None], lexical=True)
O('diff', 2, lambda s, **kw: petl.diff(s[0], s[1], **kw), presort=[None, None], kind='multi', lexical=True)
O('recordcomplement', 2, lambda s, **kw: petl.recordcomplement(s[0], s[1], **kw), lexical=True)
O('recorddiff', 2, lambda s, **kw: petl.recorddiff(s[0], s[1], **kw), kind='multi', lexical=True)
O('duplicates', 1, lambda s, **kw: petl.duplicates(s[0], 'k', **kw), presort=['k'])
O('duplicates-nokey', 1, lambda s, **kw: petl.duplicates(s[0], **kw), presort=[None])
O('unique', 1, lambda s, **kw: petl.unique(s[0], 'k', **kw), presort=['k'])
O('conflicts', 1, lambda s, **kw: petl.conflicts(s[0], 'k', **kw), presort=['k'])


def _marker(table, value):
    # the caller's marker object is the very object that sits in the table's cells (NA = 'n/a'; rows built with NA; missing=NA);
    # rows that travel through chunk files come back as equal but different objects
    for row in list(getattr(table, 'rows', table))[1:]:
        for cell in row:
            if type(cell) is type(value) and cell == value:
                return cell
    return value


O('conflicts-missing-marker', 1, lambda s, **kw: petl.conflicts(s[0], 'k', missing=_marker(s[0], 'n/a'), exclude='id', **kw), presort=['k'], marker='n/a')
O('conflicts-missing-number', 1, lambda s, **kw: petl.conflicts(s[0], 'k', missing=_marker(s[0], -999.5), include='v', **kw), presort=['k'], marker=-999.5)
# key and value given by position, not by name
O('fold-by-index', 1, lambda s, **kw: petl.fold(s[0], 1, lambda a, b: '%s+%s' % (a, b), value=2, **kw), presort=['v'])
O('fold-by-index-key-after-value', 1, lambda s, **kw: petl.fold(s[0], 1, lambda a, b: '%s+%s' % (a, b), value=0, **kw), presort=['v'])
O('aggregate-by-index', 1, lambda s, **kw: petl.aggregate(s[0], 1, list, 2, **kw), presort=['v'])
O('aggregate-multi-by-index', 1, lambda s, **kw: petl.aggregate(s[0], (1, 0), OrderedDict([('n', len), ('ids', (2, list))]), **kw), presort=[('v', 'k')])
O('rowreduce-by-index', 1, lambda s, **kw: petl.rowreduce(s[0], 1, lambda k, rows: [k, [r[2] for r in rows]], header=['v', 'ids'], **kw), presort=['v'])
O('groupselectmin-by-index', 1, lambda s, **kw: petl.groupselectmin(s[0], 1, 2, **kw), presort=['v'])
O('unique-by-index', 1, lambda s, **kw: petl.unique(s[0], (1, 0), **kw), presort=[('v', 'k')])
O('join-by-index', 2, lambda s, **kw: petl.join(s[0], s[1], key=0, **kw), presort=['k', 'k'])
O('distinct', 1, lambda s, **kw: petl.distinct(s[0], **kw), presort=[None])
O('distinct-key-count', 1, lambda s, **kw: petl.distinct(s[0], 'k', count='n', **kw), presort=['k'])
O('rowreduce', 1, lambda s, **kw: petl.rowreduce(s[0], 'k', lambda k, rows: [k, [r[2] for r in rows]], header=['k', 'ids'], **kw), presort=['k'])
O('aggregate', 1, lambda s, **kw: petl.aggregate(s[0], 'k', list, 'id', **kw), presort=['k'])
O('aggregate-len', 1, lambda s, **kw: petl.aggregate(s[0], ('k', 'v'), len, **kw), presort=[('k', 'v')])
O('aggregate-multi', 1, lambda s, **kw: petl.aggregate(s[0], 'k', _agg_multi(), **kw), presort=['k'])
O('fold', 1, lambda s, **kw: petl.fold(s[0], 'k', lambda a, b: '%s+%s' % (a, b), value='id', **kw), presort=['k'])
O('mergeduplicates', 1, lambda s, **kw: petl.mergeduplicates(s[0], 'k', **kw), presort=['k'])
O('groupselectfirst', 1, lambda s, **kw: petl.groupselectfirst(s[0], 'k', **kw), presort=['k'])
O('groupselectlast', 1, lambda s, **kw: petl.groupselectlast(s[0], 'k', **kw), presort=['k'])
O('groupselectmin', 1, lambda s, **kw: petl.groupselectmin(s[0], 'k', 'v', **kw), presort=['k'])
O('groupselectmax', 1, lambda s, **kw: petl.groupselectmax(s[0], 'k', 'v', **kw), presort=['k'])
O('groupcountdistinctvalues', 1, lambda s, **kw: petl.groupcountdistinctvalues(s[0], 'k', 'v'), presort=None)
O('rowgroupmap', 1, lambda s, **kw: petl.rowgroupmap(s[0], 'k', lambda k, rows: [(k, r[2]) for r in rows], header=['k', 'id'], **kw), presort=['k'])
O('pivot', 1, lambda s, **kw: petl.pivot(s[0], 'k', 'v', 'id', list, **kw), presort=[('k', 'v')])
O('mergesort', 2, lambda s, **kw: petl.mergesort(s[0], s[1], key='k', **kw), presort=['k', 'k'])
O('mergesort-reverse', 2, lambda s, **kw: petl.mergesort(s[0], s[1], key='k', reverse=True, **kw))
O('merge', 2, lambda s, **kw: petl.merge(s[0], s[1], key='k', **kw), presort=['k', 'k'])
O('unjoin', 1, lambda s, **kw: petl.unjoin(s[0], 'v', **kw), presort=['v'], kind='multi')
O('unjoin-key', 1, lambda s, **kw: petl.unjoin(s[0], 'v', key='k', **kw), presort=['k'], kind='multi')     # presorted: sorted by the key only
O('sort', 1, lambda s, **kw: petl.sort(s[0], 'k', **kw))
O('recast', 1, lambda s, **kw: petl.recast(petl.melt(s[0], 'id'), **kw), kind='view')
# operators that do not refer to the last field of their first input by name: that field may be renamed between passes
RENAME_SAFE = {'join', 'leftjoin', 'rightjoin', 'outerjoin', 'antijoin', 'lookupjoin', 'duplicates', 'unique', 'conflicts', 'distinct-key-count',
               'mergeduplicates', 'groupselectfirst', 'groupselectlast', 'groupselectmin', 'groupselectmax', 'sort', 'rowreduce', 'rowgroupmap',
               'aggregate-len', 'mergesort', 'merge'}
NO_STRATEGY = {'groupcountdistinctvalues', 'recast'}      # these take no strategy arguments: only config.sort_buffersize applies

RULE = RULE % len(OPS)
REQUIRED = (['op:' + o for o in OPS] + ['chunked-path-taken', 'in-memory-path-taken', 'presorted', 'tempdir', 'config.sort_buffersize',
            'history:cache-off-edit-reflected', 'history:cache-on-replayed-after-edit', 'history:cached-sources-not-reopened', 'history:pass-with-failing-source', 'history:header-edited', 'history:inputs-are-uncached-sort-views-on-the-same-key'])

KEYS = [None, 1, 2, 1.0, 'a', 'b', (1, 2), 3, 0, '', ()]


def _tables(rng, op):
    kp = rng.sample(KEYS, 4)
    vp = ['x', 'y', None, 2]

    def t(hdr, n, tag):
        return [list(hdr)] + [[rng.choice(kp), rng.choice(vp), '%s%d' % (tag, i)] for i in range(n)]
    spec = OPS[op]
    if spec['marker'] is not None:
        vp = ['x', spec['marker'], spec['marker'], 2]
        kp = kp[:2]
    if spec['arity'] == 1:
        return [t(['k', 'v', 'id'], rng.choice([0, 1, 2, 3, 4, 5, 6]), 'r')]
    if spec['lexical']:
        pool = [[rng.choice(kp), rng.choice(vp)] for _ in range(3)]

        def s(n):
            return [['k', 'v']] + [list(rng.choice(pool)) for _ in range(n)]
        a, b = s(rng.randint(0, 5)), s(rng.randint(0, 5))
        if op.startswith('record') and rng.random() < 0.5:
            b = [[r[1], r[0]] for r in b]
        return [a, b]
    if op.startswith('merge'):
        return [t(['k', 'v', 'id'], rng.randint(0, 4), 'a'), t(['k', 'v', 'id'], rng.randint(0, 4), 'b')]
    if spec['pad'] is not None:
        kp = [spec['pad']] + [k for k in kp if k != spec['pad']][:3]
        left = [['id', 'v', 'k']] + [['L%d' % i, rng.choice(vp), rng.choice(kp)][:rng.choice([3, 3, 2, 1])] for i in range(rng.randint(0, 6))]
        right = [['k', 'w']] + [[rng.choice(kp), 'R%d' % i][:rng.choice([2, 2, 2, 1])] for i in range(rng.randint(0, 4))]
        return [left, right]
    left = t(['k', 'v', 'id'], rng.randint(0, 5), 'L')
    right = [['k', 'w']] + [[rng.choice(kp), 'R%d' % i] for i in range(rng.randint(0, 4))]
    if op != 'antijoin' and rng.random() < 0.3:
        # ragged in the trailing non-key fields (the key cell always exists): the joins square such rows up themselves,
        # whatever the strategy arguments
        for tbl in (left, right):
            for i in range(1, len(tbl)):
                if rng.random() < 0.4:
                    tbl[i] = tbl[i][:rng.randint(1, len(tbl[i]) - 1)] if rng.random() < 0.8 else tbl[i] + ['extra']
    return [left, right]


def cases(ctx):
    rng = ctx.rng('cases')
    names = list(OPS)
    for i in range(ctx.pick(8000, 120000)):
        op = names[i % len(names)]
        yield {'mode': 'cross', 'op': op, 'tables': _tables(rng, op)}
    for i in range(ctx.pick(8000, 120000)):
        op = names[i % len(names)]
        tables = _tables(rng, op)
        steps = []
        for _ in range(rng.randint(3, 6)):
            r = rng.random()
            if r < 0.45:
                steps.append(['pass', 'all'])
            elif r < 0.6:
                steps.append(['pass', rng.randint(0, 3)])
            elif r < 0.66:
                steps.append(['failing-pass', rng.randrange(len(tables)), rng.randint(1, 5)])
            elif r < 0.75:
                steps.append(['append', rng.randrange(len(tables)), rng.choice(KEYS)])
            elif r < 0.84:
                steps.append(['delete', rng.randrange(len(tables)), rng.randint(0, 5)])
            elif r < 0.88 and op in RENAME_SAFE:
                steps.append(['rename', 0])        # the header row is part of the source's current contents too
            else:
                steps.append(['change', rng.randrange(len(tables)), rng.randint(0, 5), rng.choice(KEYS)])
        steps.append(['pass', 'all'])
        yield {'mode': 'history', 'op': op, 'tables': tables, 'cache': rng.random() < 0.5, 'buffersize': rng.choice([None, 1, 2]), 'steps': steps}


# ---------------------------------------------------------------------------

def _materialise(spec, res):
    if spec['kind'] == 'multi':
        return [util.rows_of(v) for v in res]
    return [util.rows_of(res)]


def _canon(parts):
    return [util.crows(p) for p in parts]


def _run(spec, tables, kw):
    def go():
        return _materialise(spec, spec['fn']([copy.deepcopy(t) for t in tables], **kw))
    return util.attempt(go)


def judge(case, ctx):
    op = case['op']
    spec = OPS[op]
    ctx.op('op:' + op)
    if case['mode'] == 'history':
        return _judge_history(case, ctx, spec)
    tables = case['tables']
    n = max(len(t) - 1 for t in tables)
    default = _run(spec, tables, {})
    if isinstance(default, util.Raised):
        # the operator itself rejects this input (e.g. pivot orders its column values natively): not a strategy matter
        ctx.seen('default-call-raised:' + op)
        return None
    cdef = _canon(default)
    out = []
    sub = os.path.join(_audit.dir, 'sub')
    combos = []
    if op not in NO_STRATEGY:
        for bs in list(range(1, n + 2)) + [None]:
            for cache in (True, False):
                combos.append({'buffersize': bs, 'cache': cache})
        combos.append({'buffersize': 1, 'tempdir': sub})
        combos.append({'buffersize': max(1, n), 'tempdir': sub, 'cache': False})
    combos.append({'config': 1})
    combos.append({'config': 2})
    chunked = False
    for kw in combos:
        kw = dict(kw)
        cfgv = kw.pop('config', None)
        if cfgv is not None:
            pcfg.sort_buffersize = cfgv
            ctx.seen('config.sort_buffersize')
        else:
            pcfg.sort_buffersize = 100000
        c0 = len(_audit.created)
        got = _run(spec, tables, kw)
        made = _audit.created[c0:]
        if made:
            chunked = True
            ctx.seen('chunked-path-taken')
            if 'tempdir' in kw:
                ctx.seen('tempdir')
                if not all(p.startswith(sub) for p in made):
                    out.append({'kind': 'tempdir-not-honoured', 'strategy': kw})
        else:
            ctx.seen('in-memory-path-taken')
        if isinstance(got, util.Raised):
            out.append({'kind': 'exception', 'detail': got.text, 'where': got.where, 'strategy': dict(kw, config=cfgv)})
        elif _canon(got) != cdef:
            out.append({'kind': 'strategy-differs', 'strategy': dict(kw, config=cfgv), 'default': default, 'observed': got})
        if len(out) >= 3:
            break
    pcfg.sort_buffersize = 100000
    # presorted=True on inputs sorted by the key with the reference sort
    if spec['presort'] is not None and not out:
        srt = []
        for t, key in zip(tables, spec['presort']):
            idx = gen.resolve_key(t[0], key) if key is not None else list(range(len(t[0])))
            rev = False
            if spec['pad'] is not None:
                # the rows stay short: only their sort key is the one they have once squared up
                w_ = len(t[0])
                srt.append([t[0]] + sorted(t[1:], key=lambda r: util.model_key(gen.keyval(list(r) + [spec['pad']] * (w_ - len(r)), idx))))
                continue
            srt.append([t[0]] + sorted(t[1:], key=lambda r: util.model_key(gen.keyval(r, idx)), reverse=rev))
        ctx.seen('presorted')
        # the reference for presorted input is the default call on that same (sorted) input
        ref = _run(spec, srt, {})
        for kw in ({'presorted': True}, {'presorted': True, 'buffersize': 1, 'cache': False}):
            got = _run(spec, srt, kw)
            if isinstance(got, util.Raised):
                out.append({'kind': 'exception', 'detail': got.text, 'where': got.where, 'strategy': kw, 'presorted': True})
            elif isinstance(ref, util.Raised) or _canon(got) != _canon(ref):
                out.append({'kind': 'strategy-differs', 'strategy': kw, 'presorted': True, 'default': ref if not isinstance(ref, util.Raised) else repr(ref), 'observed': got})
    if n >= 2 and chunked:
        ctx.mark_nontrivial()
    if out:
        out[0]['presorted'] = out[0].get('presorted', False)
    return out[:3]


# ---------------------------------------------------------------------------

def _judge_history(case, ctx, spec):
    op = case['op']
    cache = case['cache']
    data = [copy.deepcopy(t) for t in case['tables']]          # the editable current contents
    srcs = [probes.CountingSource(t) for t in data]              # CountingSource iterates the live list
    kw = {}
    if op not in NO_STRATEGY:
        kw = {'cache': cache}
        if case['buffersize'] is not None:
            kw['buffersize'] = case['buffersize']
    else:
        return None            # no cache argument: the cache clause makes no claim
    ins = srcs
    ps = spec['presort']
    if (ps is not None and all(k is not None for k in ps) and spec['pad'] is None and spec['marker'] is None
            and int(util.fp(case)[4:6], 16) % 5 == 0 and 'rename' not in [st[0] for st in case['steps']]):
        # the operator's inputs are themselves uncached sort views on the operator's own key: the operator's cache argument
        # still decides whether later passes replay the completed one or read the sources again
        ins = [petl.sort(s_, k_, cache=False) for s_, k_ in zip(srcs, ps)]
        ctx.seen('history:inputs-are-uncached-sort-views-on-the-same-key')
    res = spec['fn'](ins, **kw)
    views = list(res) if spec['kind'] == 'multi' else [res]
    out = []
    completed = None            # canon of the first completed pass (cache=True)
    possible = []               # results that a not-yet-completed cached view may legitimately show
    edited_after_completed = False

    versions = [[] for _ in data]     # the contents every input had at each (attempted) pass

    def note_versions():
        for i_, t_ in enumerate(data):
            if not versions[i_] or util.canon(versions[i_][-1]) != util.canon(t_):
                versions[i_].append(copy.deepcopy(t_))

    def current():
        r = _run(spec, data, {})
        return r

    def mixed_results():
        # each input is cached separately: before the operator has completed a pass, one input may already be cached from an
        # earlier (partial or failed) pass while the other is re-read, so any combination of per-input versions may show
        import itertools
        out_ = []
        for combo in itertools.product(*versions):
            r_ = _run(spec, list(combo), {})
            if not isinstance(r_, util.Raised):
                out_.append(_canon(r_))
        return out_

    for st in case['steps']:
        if st[0] == 'failing-pass':
            # one source fails once, at a data row, while a full pass is attempted: that pass is not a completed pass, and
            # nothing it left behind may be replayed as if it were one
            src_ = srcs[st[1]]
            if len(data[st[1]]) - 1 < 1:
                continue
            src_.fail_next_at = 1 + (st[2] % (len(data[st[1]]) - 1))
            note_versions()
            hit = False
            for v in views:
                try:
                    for _ in iter(v):
                        pass
                except probes.InjectedFault:
                    hit = True
                    break
            src_.fail_next_at = None
            if hit:
                ctx.seen('history:pass-with-failing-source')
            elif cache and completed is None:
                # the pass ran through without touching the failing row: it was a completed pass (result recorded by the next pass step)
                pass
            continue
        if st[0] == 'pass':
            cur = current()
            if isinstance(cur, util.Raised):
                return None      # the edit made the operator itself fail on these contents (e.g. header-only corner): not C11's matter
            possible.append(_canon(cur))
            note_versions()
            before = [(s.iter_calls, s.exhausted, s.data_pulls) for s in srcs]
            k = st[1]
            got = []
            ok = True
            for v in views:
                if k == 'all':
                    g = util.attempt_rows(lambda: v)
                else:
                    g = util.attempt_rows(lambda: v, limit=k)
                    if not isinstance(g, util.Raised):
                        g = g[:k + 1]
                if isinstance(g, util.Raised):
                    out.append({'kind': 'exception', 'detail': g.text, 'where': g.where, 'step': st})
                    ok = False
                    break
                got.append(g)
            if not ok:
                break
            cg = _canon(got)

            def is_prefix(cand):
                return all(a == b[:len(a)] for a, b in zip(cg, cand)) if k != 'all' else cg == cand
            if not cache:
                if not is_prefix(_canon(cur)):
                    out.append({'kind': 'cache-off-pass-does-not-reflect-current-contents', 'step': st, 'expected': cur, 'observed': got})
                    break
                if len(possible) > 1 and possible[-1] != possible[-2]:
                    ctx.seen('history:cache-off-edit-reflected')
            else:
                if completed is not None:
                    if not is_prefix(completed):
                        out.append({'kind': 'cache-on-pass-differs-from-the-completed-pass', 'step': st, 'observed': got})
                        break
                    # an iteration of a source that ran to the end during the completed pass is cached and must not
                    # recur; header-only peeks (a side whose rows were never needed) may.  No data row may be pulled.
                    reopened = [i for i, (s, (o1, x1)) in enumerate(zip(srcs, budget_at_completion))
                                if s.iter_calls - before[i][0] > o1 - x1 or s.data_pulls != before[i][2]]
                    if reopened:
                        out.append({'kind': 'cache-on-pass-reopened-a-fully-read-source', 'inputs': reopened, 'step': st,
                                    'opens-this-pass': [s.iter_calls - b[0] for s, b in zip(srcs, before)], 'budget(opens, exhausted)': budget_at_completion})
                        break
                    ctx.seen('history:cached-sources-not-reopened')
                    if edited_after_completed:
                        ctx.seen('history:cache-on-replayed-after-edit')
                        ctx.mark_nontrivial()
                else:
                    if not any(is_prefix(p) for p in possible):
                        # the views of a multi-view result (diff, recorddiff, unjoin) own separate sorts and caches, and a failed
                        # pass stops at the first view that hits the fault: until a pass has completed, each view on its own may
                        # show any combination of per-input versions
                        cands = mixed_results()

                        def view_ok(j):
                            return any((cg[j] == c_[j]) if k == 'all' else (cg[j] == c_[j][:len(cg[j])]) for c_ in cands if j < len(c_))
                        if not all(view_ok(j) for j in range(len(cg))):
                            out.append({'kind': 'cache-on-pass-matches-no-version-of-the-source', 'step': st, 'observed': got})
                            break
                    if k == 'all':
                        completed = cg
                        budget_at_completion = [(s.iter_calls - b[0], s.exhausted - b[1]) for s, b in zip(srcs, before)]
        else:
            t = data[st[1]]
            width = len(t[0])
            if st[0] == 'append':
                row = [st[2]] + ['e'] * (width - 1)
                if t[0][0] != 'k' and 'k' in t[0] and not OPS[op]['lexical']:
                    row = ['e'] * width
                    row[t[0].index('k')] = st[2]
                if OPS[op]['lexical'] and width == 2 and t[0][0] != 'k':
                    row = ['e', st[2]]
                t.append(row)
            elif st[0] == 'delete':
                if len(t) > 1:
                    del t[1 + st[2] % (len(t) - 1)]
            elif st[0] == 'rename':
                t[0] = list(t[0][:-1]) + [str(t[0][-1]) + '_']
                ctx.seen('history:header-edited')
            else:
                if len(t) > 1:
                    # replace the row object (a cache may legitimately hold references to the old row objects)
                    pos = 1 + st[2] % (len(t) - 1)
                    r = list(t[pos])
                    r += ['e'] * (width - len(r))
                    r[t[0].index('k')] = st[3]
                    t[pos] = r
            if completed is not None:
                edited_after_completed = True
            if not cache:
                ctx.mark_nontrivial()
    return out
