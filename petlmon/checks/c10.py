"""C10  duplicates / unique / distinct / conflicts partition rows by key multiplicity.

Oracle: collections.Counter of key multiplicities (Python equality of key
tuples), computed directly from the input rows.
"""
from __future__ import annotations

import copy
from collections import Counter

import petl

from petlmon import gen, probes, util

ID = 'C10'
LEVEL = 'exploration'
RULE = ('cases = (table, key, count field, conflicts arguments, presorted, buffersize); exhaustive part (both tiers): every '
        'composition of n <= 7 into run lengths, two value fillings (runs in ascending and in shuffled input order), keys None / '
        'single / compound; plus seeded random rectangular tables of 0-7 rows with None and mixed-type hashable cells. Every case '
        'runs duplicates, unique, distinct (with and without count), conflicts and isunique. Non-trivial: the table has both a key '
        'that occurs once and a key that occurs more than once. Distinct = SHA-1 of the case.')
ASSUMPTIONS = ['rectangular tables with hashable cells (property domain)', 'key equality is Python == on key tuples']
REQUIRED = ['rows=0', 'rows=1', 'run>=3-at-start', 'run>=3-in-middle', 'run>=3-at-end', 'key-none', 'key-compound', 'key-index',
            'count-column', 'conflict-group', 'agreeing-duplicate-group', 'none-key-duplicated', 'presorted', 'input-is-a-petl-view', 'row-containers:mixed', 'row-containers:tuples', 'buffersize-chunked', 'later-pass-after-edit(cache=False)', 'pass-after-a-failed-pass', 'later-pass-after-columns-rearranged(cache=False)']
CELLS = [None, 1, 1.0, True, 2, 'a', b'a', 'b', (1, 2), gen.D(2020, 1, 1), gen.DT(2020, 1, 1, 0, 0), 0, '']      # a date and the datetime at its midnight are different keys


def _mk(table, key, **kw):
    c = {'table': table, 'key': key, 'count': None, 'missing': None, 'include': None, 'exclude': None, 'presorted': False, 'buffersize': None}
    c.update(kw)
    return c


def cases(ctx):
    # run-length compositions
    keyvals = [None, 1, 'a', 2, 'b', b'a', 3]
    rng0 = ctx.rng('fill')
    for n in range(0, 8):
        for comp in gen.compositions(n):
            for filling in (0, 1):
                rows = []
                for gi, run in enumerate(comp):
                    for j in range(run):
                        v = 'same' if filling == 0 else ('v%d' % j if j % 2 else 'same')
                        rows.append([keyvals[gi], 'g%d' % gi, v, 'r%d' % len(rows)])
                if filling == 1:
                    rng0.shuffle(rows)
                t = [['k', 'g', 'v', 'id']] + rows
                yield _mk(t, 'k', count='n')
                yield _mk(t, ('k', 'g'))
                if n <= 5:
                    yield _mk([['k', 'g']] + [r[:2] for r in rows], None, count='cnt')
                    yield _mk(t, 0, buffersize=1)
    rng = ctx.rng('random')
    for i in range(ctx.pick(50000, 800000)):
        nf = rng.randint(1, 4)
        pool = rng.sample(CELLS, 3) + ([None] if rng.random() < 0.5 else [])
        hdr = gen.fieldnames(nf)
        n = rng.choice([0, 1, 2, 3, 4, 5, 6, 7])
        rows = [[rng.choice(pool) for _ in range(nf)] for _ in range(n)]
        if rows and rng.random() < 0.12:
            # cells that repeat their field's name (a header line repeated among the data): rows like any other
            for _ in range(rng.choice([1, 1, 2])):
                ri = rng.randrange(len(rows))
                rows[ri] = [f if rng.random() < 0.8 else c for f, c in zip(hdr, rows[ri])]
        r = rng.random()
        if r < 0.2:
            key = None
        elif r < 0.6 or nf == 1:
            key = rng.choice(hdr)
            r2 = rng.random()
            if r2 < 0.2:
                key = hdr.index(key)
            elif r2 < 0.32:
                key = rng.choice([(key,), [key], (hdr.index(key),)])      # a one-element sequence selects the same single field
        else:
            key = tuple(rng.sample(hdr, rng.randint(2, min(3, nf))))
            if rng.random() < 0.3:
                key = list(key)
        kw = {}
        if rng.random() < 0.4:
            kw['count'] = 'n'
        if rng.random() < 0.3:
            kw['missing'] = rng.choice(pool)
        if nf > 1 and rng.random() < 0.3:
            kw[rng.choice(['include', 'exclude'])] = rng.choice([rng.choice(hdr), tuple(rng.sample(hdr, rng.randint(1, nf))),
                                                                  list(rng.sample(hdr, rng.randint(1, nf)))])
            if rng.random() < 0.2:
                kw['include'], kw['exclude'] = rng.choice(hdr), rng.choice(hdr)      # both given: exclude overrides include
        if rng.random() < 0.25:
            kw['presorted'] = True
        kw['rowtypes'] = rng.choice(['lists', 'lists', 'tuples', 'mixed', 'mixed'])
        if not kw.get('presorted') and key is not None and rng.random() < 0.15:
            # the input is itself a petl sort view: on a prefix of the key, on the key, descending, on another field; or a pass-through
            kw['wrap'] = rng.choice(['sort-first-key-field', 'sort-first-key-field', 'sort-same-key', 'sort-same-key-reverse', 'sort-last-field', 'cat'])
        if rng.random() < 0.25:
            kw['buffersize'] = rng.randint(1, 3)
        yield _mk([hdr] + rows, key, **kw)


def _wrapfn(case, hdr):
    key = case['key']
    k1 = key[0] if isinstance(key, (list, tuple)) else key
    wk = tuple(key) if isinstance(key, list) else key
    return {'sort-first-key-field': lambda t: petl.sort(t, k1), 'sort-same-key': lambda t: petl.sort(t, wk),
            'sort-same-key-reverse': lambda t: petl.sort(t, wk, reverse=True), 'sort-last-field': lambda t: petl.sort(t, len(hdr) - 1),
            'cat': lambda t: petl.cat(t)}[case['wrap']]


def judge(case, ctx):
    table, key = case['table'], case['key']
    hdr = table[0]
    rows = [tuple(r) for r in table[1:]]
    wrapped = bool(case.get('wrap')) and not case['presorted']
    if wrapped:
        # "input order" is the order in which the view that serves as input delivers its rows
        rows = [tuple(r) for r in util.rows_of(_wrapfn(case, hdr)(copy.deepcopy(table)))[1:]]
        table = [hdr] + [list(r) for r in rows]
    n = len(rows)
    kidx = gen.resolve_key(hdr, key) if key is not None else list(range(len(hdr)))

    def keyof(r):
        return tuple(r[i] for i in kidx)
    keys = [keyof(r) for r in rows]
    mult = Counter(keys)
    # ---- tallies
    ctx.seen('rows=%d' % n if n <= 1 else 'rows>1')
    if key is None:
        ctx.seen('key-none')
    elif isinstance(key, (list, tuple)):
        ctx.seen('key-compound')
    elif isinstance(key, int):
        ctx.seen('key-index')
    if case['count']:
        ctx.seen('count-column')
    skeys = sorted(mult, key=util.model_key)
    for pos, k in enumerate(skeys):
        if mult[k] >= 3:
            if pos == 0:
                ctx.seen('run>=3-at-start')
            if pos == len(skeys) - 1:
                ctx.seen('run>=3-at-end')
            if 0 < pos < len(skeys) - 1:
                ctx.seen('run>=3-in-middle')
    if any(all(x is None for x in k) and c > 1 for k, c in mult.items()):
        ctx.seen('none-key-duplicated')
    if any(c == 1 for c in mult.values()) and any(c > 1 for c in mult.values()):
        ctx.mark_nontrivial()

    kw = {}
    src = copy.deepcopy(table)
    if case['presorted']:
        ctx.seen('presorted')
        kw['presorted'] = True
        src = [src[0]] + sorted(src[1:], key=lambda r: util.model_key(keyof(r)))
    rt = case.get('rowtypes', 'lists')
    if rt != 'lists':
        # rows as tuples, or lists and tuples mixed (equal cells are equal rows whatever the container)
        src = [tuple(src[0]) if rt == 'tuples' else src[0]] + [tuple(r) if (rt == 'tuples' or i % 2) else r for i, r in enumerate(src[1:])]
        ctx.seen('row-containers:' + rt)
    if wrapped:
        ctx.seen('input-is-a-petl-view')
        src = _wrapfn(case, hdr)(src)
    if case['buffersize'] is not None:
        kw['buffersize'] = case['buffersize']
        if n > case['buffersize']:
            ctx.seen('buffersize-chunked')
    out = []
    H = tuple(hdr)

    def strict_ms(rs):
        return Counter(util.crow(r) for r in rs)

    def run(name, build):
        got = util.attempt_rows(build)
        ctx.seen('executions')
        if isinstance(got, util.Raised):
            out.append({'kind': 'exception', 'fn': name, 'detail': got.text, 'where': got.where})
            return None
        return got

    # ---- duplicates / unique partition
    dup = run('duplicates', lambda: petl.duplicates(copy.deepcopy(src), key, **kw))
    uni = run('unique', lambda: petl.unique(copy.deepcopy(src), key, **kw))
    exp_dup = [r for r, k in zip(rows, keys) if mult[k] > 1]
    exp_uni = [r for r, k in zip(rows, keys) if mult[k] == 1]
    if dup is not None:
        if util.crow(dup[0]) != util.crow(H) or strict_ms(dup[1:]) != strict_ms(exp_dup):
            out.append({'kind': 'duplicates-differs', 'expected': exp_dup, 'observed': dup})
    if uni is not None:
        if util.crow(uni[0]) != util.crow(H) or strict_ms(uni[1:]) != strict_ms(exp_uni):
            out.append({'kind': 'unique-differs', 'expected': exp_uni, 'observed': uni})
    if dup is not None and uni is not None and not out:
        if strict_ms(dup[1:]) + strict_ms(uni[1:]) != strict_ms(rows):
            out.append({'kind': 'duplicates+unique!=table'})
    # ---- a later pass with cache=False after the source gained a row: the partition holds for the current contents
    if rows and key is not None and not case['presorted'] and (len(rows) + len(str(key))) % 3 == 0:
        live = copy.deepcopy(table)
        kw2 = dict(kw, cache=False)
        vd = petl.duplicates(live, key, **kw2)
        vu = petl.unique(live, key, **kw2)
        util.attempt_rows(lambda: vd)
        util.attempt_rows(lambda: vu)
        live.append(list(rows[0]))                       # repeats an existing key
        rows2 = rows + [tuple(rows[0])]
        mult2 = Counter(keyof(r) for r in rows2)
        d2, u2 = util.attempt_rows(lambda: vd), util.attempt_rows(lambda: vu)
        ctx.seen('later-pass-after-edit(cache=False)')
        if isinstance(d2, util.Raised) or isinstance(u2, util.Raised):
            out.append({'kind': 'exception', 'fn': 'duplicates/unique second pass', 'detail': repr(d2 if isinstance(d2, util.Raised) else u2)})
        else:
            e_d = [r for r in rows2 if mult2[keyof(r)] > 1]
            e_u = [r for r in rows2 if mult2[keyof(r)] == 1]
            if strict_ms(d2[1:]) != strict_ms(e_d) or strict_ms(u2[1:]) != strict_ms(e_u):
                out.append({'kind': 'later-pass-with-cache-off-does-not-partition-the-current-rows', 'expected-duplicates': e_d, 'observed-duplicates': d2[1:],
                            'expected-unique': e_u, 'observed-unique': u2[1:]})
    # ---- a pass that fails at the last row, then another pass over the same views: the partition of the whole table
    if len(rows) >= 2 and key is not None and not case['presorted'] and not wrapped and (len(rows) + len(str(key))) % 3 == 1:
        fkw = dict(kw, buffersize=1)
        fdup = petl.duplicates(probes.FailingSource(copy.deepcopy(table), fail_at=len(rows), only_pass=1), key, **fkw)
        funi = petl.unique(probes.FailingSource(copy.deepcopy(table), fail_at=len(rows), only_pass=1), key, **fkw)
        fdis = petl.distinct(probes.FailingSource(copy.deepcopy(table), fail_at=len(rows), only_pass=1), key, count='n', **fkw)
        for v_ in (fdup, funi, fdis):
            try:
                for _ in iter(v_):
                    pass
            except probes.InjectedFault:
                ctx.seen('pass-after-a-failed-pass')
        d3, u3, c3 = util.attempt_rows(lambda: fdup), util.attempt_rows(lambda: funi), util.attempt_rows(lambda: fdis)
        if any(isinstance(x, util.Raised) for x in (d3, u3, c3)):
            out.append({'kind': 'exception', 'fn': 'pass after a failed pass', 'detail': repr([x for x in (d3, u3, c3) if isinstance(x, util.Raised)][0])})
        elif strict_ms(d3[1:]) != strict_ms(exp_dup) or strict_ms(u3[1:]) != strict_ms(exp_uni) or sum(r[-1] for r in c3[1:]) != n:
            out.append({'kind': 'pass-after-a-failed-pass-does-not-partition-the-table', 'expected-duplicates': exp_dup, 'observed-duplicates': d3[1:],
                        'expected-unique': exp_uni, 'observed-unique': u3[1:], 'distinct-counts': [r[-1] for r in c3[1:]]})
    # ---- the source's columns are re-arranged between two passes of a cache=False view whose key is given by name
    if len(hdr) >= 2 and isinstance(key, (str, tuple)) and all(isinstance(k_, str) for k_ in ((key,) if isinstance(key, str) else key)) \
            and not case['presorted'] and not wrapped and len(set(hdr)) == len(hdr) and (len(rows) + len(str(key))) % 3 == 2:
        live = copy.deepcopy(table)
        vdis = petl.distinct(live, key, count='n', cache=False)
        vdup = petl.duplicates(live, key, cache=False)
        util.attempt_rows(lambda: vdis)
        util.attempt_rows(lambda: vdup)
        for i_ in range(len(live)):
            live[i_] = list(reversed(live[i_]))           # new row objects: header and rows with the fields in reverse order
        hdr2 = live[0]
        kidx2 = gen.resolve_key(hdr2, key)
        rows2 = [tuple(r) for r in live[1:]]
        keys2 = [tuple(r[i] for i in kidx2) for r in rows2]
        mult2 = Counter(keys2)
        first2 = {}
        for r, k in zip(rows2, keys2):
            first2.setdefault(k, r)
        exp_c2 = [tuple(hdr2) + ('n',)] + [tuple(first2[k]) + (mult2[k],) for k in sorted(mult2, key=util.model_key)]
        exp_d2 = [r for r, k in zip(rows2, keys2) if mult2[k] > 1]
        c2_, d2_ = util.attempt_rows(lambda: vdis), util.attempt_rows(lambda: vdup)
        ctx.seen('later-pass-after-columns-rearranged(cache=False)')
        if isinstance(c2_, util.Raised) or isinstance(d2_, util.Raised):
            out.append({'kind': 'exception', 'fn': 'pass after the columns were re-arranged', 'detail': repr(c2_ if isinstance(c2_, util.Raised) else d2_)})
        elif util.crows(c2_) != util.crows(exp_c2) or strict_ms(d2_[1:]) != strict_ms(exp_d2):
            out.append({'kind': 'later-pass-with-cache-off-does-not-follow-the-current-header', 'expected-distinct': exp_c2, 'observed-distinct': c2_,
                        'expected-duplicates': exp_d2, 'observed-duplicates': d2_[1:]})
    # ---- distinct
    first = {}
    for r, k in zip(rows, keys):
        first.setdefault(k, r)
    exp_dis = [first[k] for k in skeys]
    dis = run('distinct', lambda: petl.distinct(copy.deepcopy(src), key, **kw))
    if dis is not None:
        if util.crows(dis) != util.crows([H] + exp_dis):
            out.append({'kind': 'distinct-differs', 'expected': [H] + exp_dis, 'observed': dis})
    if case['count']:
        cf = case['count']
        disc = run('distinct(count)', lambda: petl.distinct(copy.deepcopy(src), key, count=cf, **kw))
        if disc is not None:
            exp_c = [H + (cf,)] + [tuple(first[k]) + (mult[k],) for k in skeys]
            if util.crows(disc) != util.crows(exp_c):
                out.append({'kind': 'distinct-count-differs', 'expected': exp_c, 'observed': disc})
            elif sum(r[-1] for r in disc[1:]) != n:
                out.append({'kind': 'distinct-counts-do-not-add-up', 'observed': disc})
    # ---- isunique (single or compound field, not None)
    if key is not None and dup is not None:
        iu = util.attempt(lambda: petl.isunique(copy.deepcopy(table), key))
        if isinstance(iu, util.Raised):
            out.append({'kind': 'exception', 'fn': 'isunique', 'detail': iu.text, 'where': iu.where})
        elif iu != (len(dup) == 1) or iu != (not exp_dup):
            out.append({'kind': 'isunique-disagrees', 'isunique': iu, 'duplicates': dup[1:]})
    # ---- conflicts (needs a key)
    if key is not None:
        missing, include, exclude = case['missing'], case['include'], case['exclude']
        ckw = dict(kw)
        if missing is not None:
            ckw['missing'] = util.fresh(missing)     # equal to the cells, not the same object
        if include is not None:
            ckw['include'] = include
        if exclude is not None:
            ckw['exclude'] = exclude
        con = run('conflicts', lambda: petl.conflicts(copy.deepcopy(src), key, **ckw))
        flds = [str(f) for f in hdr]
        inc = None if include is None else (list(include) if isinstance(include, (list, tuple)) else [include])
        exc = None if exclude is None else (list(exclude) if isinstance(exclude, (list, tuple)) else [exclude])
        if inc and exc:
            inc = None
        considered = [i for i, f in enumerate(flds) if (exc and f not in exc) or (inc and f in inc) or (not exc and not inc)]

        def disagree(x, y):
            for i in considered:
                a, b = x[i], y[i]
                if not (a == missing or b == missing or a is missing or b is missing) and a != b:
                    return True
            return False
        groups = {}
        for r, k in zip(rows, keys):
            groups.setdefault(k, []).append(r)
        conflicting = set()      # groups with at least one disagreeing pair
        all_pairs = set()        # groups of >= 2 rows where every pair disagrees
        neighbour_groups = set()     # groups in which two rows that follow each other (the sort is stable: input order) disagree
        for k, g in groups.items():
            if any(disagree(g[i], g[i + 1]) for i in range(len(g) - 1)):
                neighbour_groups.add(k)
        for k, g in groups.items():
            if len(g) > 1:
                pairs = [(g[i], g[j]) for i in range(len(g)) for j in range(i + 1, len(g))]
                d = [disagree(x, y) for x, y in pairs]
                if any(d):
                    conflicting.add(k)
                    ctx.seen('conflict-group')
                else:
                    ctx.seen('agreeing-duplicate-group')
                if all(d):
                    all_pairs.add(k)
        if con is not None:
            if util.crow(con[0]) != util.crow(H):
                out.append({'kind': 'conflicts-header-differs', 'observed': con[:1]})
            got_ms = strict_ms(con[1:])
            allowed = strict_ms(r for r, k in zip(rows, keys) if k in conflicting)
            if any(v > allowed.get(k, 0) for k, v in got_ms.items()):
                out.append({'kind': 'conflicts-returned-row-outside-a-conflicting-group', 'observed': con[1:],
                            'conflicting-keys': sorted(conflicting, key=util.model_key)})
            must = strict_ms(r for r, k in zip(rows, keys) if k in all_pairs)
            if any(got_ms.get(k, 0) < v for k, v in must.items()):
                out.append({'kind': 'conflicts-missed-a-group-whose-rows-all-disagree', 'observed': con[1:],
                            'expected-at-least': [r for r, k in zip(rows, keys) if k in all_pairs]})
            # a group in which two rows that follow each other disagree on a non-missing value shows up with at least two of its
            # rows, whichever way the comparison within a group is organised (neighbours only, or all pairs).  (Which further rows
            # of such a group are returned is not claimed: petl itself omits a row that agreed with its predecessor and disagrees
            # with its successor when an earlier pair of the group had already conflicted - see DESIGN 6.3.)
            for k in neighbour_groups:
                grp_ms = strict_ms(r for r, kk in zip(rows, keys) if kk == k)
                if sum(min(got_ms.get(x, 0), v) for x, v in grp_ms.items()) < 2 and not out:
                    out.append({'kind': 'conflicts-missed-a-group-with-disagreeing-neighbours', 'key': k, 'observed': con[1:],
                                'group': [r for r, kk in zip(rows, keys) if kk == k]})
            if neighbour_groups:
                ctx.seen('conflicts:neighbouring-disagreement')
    return out
