"""C01  Table views are re-iterable; their iterators are mutually independent.

Schedule driver: a schedule is a word over  s_i (call iter(view)),  n_i (next),
x_i (drop the iterator and collect)  on up to 3 iterator slots of one view,
followed by two fresh full passes.  Oracle = twin: the same view built freshly
from equal sources and iterated alone.  Every iterator must return a prefix of
the solo sequence (all of it if it reached the end), never raise, and the fresh
passes must equal the solo sequence.  On one thread the interleavings of
next() calls *are* the schedule space.
"""
from __future__ import annotations

import gc
import itertools
import json
import os
import pickle
import sqlite3

import petl
from petl.util.materialise import cache as _cache
from petlmon import probes  # noqa: E402,F811

from petlmon import catalogue as C
from petlmon import util

ID = 'C01'
LEVEL = 'exploration'
RULE = ('cases = (view, source size 0-3 rows (+ragged), schedule word over s_i/n_i/x_i for 2-3 iterators); per view: directed schedules '
        '(round-robin, one-step-then-other-to-the-end, second started mid-way, abandoned-after-first-row, late start of an early-created '
        'iterator after a later one completed), bounded-exhaustive: every interleaving of two complete consumptions (C(2L,L), L <= 5, '
        'iterators created up-front and at first use) in thorough / a seeded sample in quick, all pairs of abandonment points under '
        'round-robin, and seeded random 3-iterator schedules. Non-trivial: at least two iterators each advanced past a data row with '
        'control switching between them while both were unfinished. Distinct = SHA-1 of the case.')
ASSUMPTIONS = ['single-threaded cooperative schedules (petl has no threads)', 'twin views built from equal sources are deterministic (checked per view)']
CACHING = ['sort', 'sort-key', 'sort-file-cache', 'sort-reverse-file', 'hashjoin', 'hashleftjoin', 'hashrightjoin', 'cache', 'cache-n2',
           'x:fromdicts-generator', 'x:fromdicts-generator-sample2', 'x:fromdicts-generator-shared-cells', 'join', 'distinct', 'aggregate-buffered']
REQUIRED = ['another-view-built-and-read-between-steps', 'views-whose-reference-is-their-own-first-pass', 'failed-pass:source-failed-midway', 'clearcache-under-live-iterators', 'method-form-views', 'views-judged', 'schedules-run', 'fresh-passes-compared'] + ['midfill:' + v for v in CACHING]
EXHAUSTIVE = {'quick': False, 'thorough': False}

_files = {}


def setup(ctx):
    d = ctx.scratch
    N = C.table_a(4)
    _files['csv'] = os.path.join(d, 'a.csv')
    petl.tocsv(N, _files['csv'])
    _files['tsv'] = os.path.join(d, 'a.tsv')
    petl.totsv(N, _files['tsv'])
    _files['pickle'] = os.path.join(d, 'a.p')
    petl.topickle(N, _files['pickle'])
    _files['json'] = os.path.join(d, 'a.json')
    petl.tojson(N, _files['json'])
    _files['jsonl'] = os.path.join(d, 'a.jsonl')
    petl.tojson(N, _files['jsonl'], lines=True)
    _files['text'] = os.path.join(d, 'a.txt')
    with open(_files['text'], 'w') as f:
        f.write('l1\nl2\nl3\n')
    _files['csvgz'] = os.path.join(d, 'a.csv.gz')
    petl.tocsv(N, _files['csvgz'])
    _files['db'] = os.path.join(d, 'a.db')
    c = sqlite3.connect(_files['db'])
    c.execute('create table t (a, b)')
    c.executemany('insert into t values (?, ?)', [(1, 'x'), (2, 'y'), (3, 'z')])
    c.commit()
    c.close()
    _files['xml'] = os.path.join(d, 'a.xml')
    with open(_files['xml'], 'w') as f:
        f.write('<table><tr><td>foo</td><td>bar</td></tr><tr><td>a</td><td>1</td></tr><tr><td>b</td><td>2</td></tr><tr><td>c</td><td>3</td></tr></table>')
    _files['csvbz2'] = os.path.join(d, 'a.csv.bz2')
    petl.tocsv(N, _files['csvbz2'])
    _files['picklegz'] = os.path.join(d, 'a.p.gz')
    petl.topickle(N, _files['picklegz'])
    import zipfile
    _files['zip'] = os.path.join(d, 'a.zip')
    with zipfile.ZipFile(_files['zip'], 'w') as z:
        z.write(_files['csv'], 'a.csv')
    from petl.io.sources import MemorySource
    for kind in ('csv', 'pickle', 'text', 'json', 'jsonl'):
        with open(_files[kind], 'rb') as f:
            _files['mem:' + kind] = MemorySource(f.read())
    big = [['f0', 'f1']] + [[i, 'value-%d' % i] for i in range(3)]
    sink = MemorySource()
    petl.topickle(big, sink)
    _files['mem:pickle2'] = MemorySource(sink.getvalue())


_SHARED = ('shared', 'tuple')


def _dictgen(n):
    for i in range(n):
        yield {'a': i, 'b': str(i)}


def _dictgen_shared(n):
    # every record carries the very same str / tuple objects, and odd records lack a key (filled with `missing`)
    for i in range(n):
        d = {'a': i, 'c': 'constant-cell', 't': _SHARED}
        if i % 2 == 0:
            d['d'] = 'constant-cell'
        yield d


def _dictgen_sparse(n):
    # records that lack fields, down to the empty record {} (a row of `missing` only), also in the middle of the stream
    for i in range(n):
        yield [{'a': i, 'b': str(i)}, {}, {'b': 'only-b'}, {}, {'a': 0, 'b': ''}][i % 5]


EXTRA = {
    'x:fromcsv': lambda s: petl.fromcsv(_files['csv']),
    'x:fromcsv-gz': lambda s: petl.fromcsv(_files['csvgz']),
    'x:fromtsv': lambda s: petl.fromtsv(_files['tsv']),
    'x:frompickle': lambda s: petl.frompickle(_files['pickle']),
    'x:fromjson': lambda s: petl.fromjson(_files['json']),
    'x:fromjson-lines': lambda s: petl.fromjson(_files['jsonl'], lines=True),
    'x:fromtext': lambda s: petl.fromtext(_files['text']),
    'x:fromdb': lambda s: petl.fromdb(_files['db'], 'select * from t'),
    'x:fromxml': lambda s: petl.fromxml(_files['xml'], 'tr', 'td'),
    'x:fromcsv-bz2': lambda s: petl.fromcsv(_files['csvbz2']),
    'x:frompickle-gz': lambda s: petl.frompickle(_files['picklegz']),
    'x:fromcsv-zip': lambda s: petl.fromcsv(petl.ZipSource(_files['zip'], 'a.csv')),
    'x:fromcsv-header': lambda s: petl.fromcsv(_files['csv'], header=['a', 'b', 'c']),
    'x:fromtext-strip': lambda s: petl.fromtext(_files['text'], header=['l'], strip=False),
    'x:fromdb-connection': lambda s: petl.fromdb(sqlite3.connect(_files['db']), 'select * from t'),
    'x:fromdb-mkcursor': lambda s: (lambda c: petl.fromdb(lambda: c.cursor(), 'select * from t'))(sqlite3.connect(_files['db'])),
    'x:fromcsv-memory': lambda s: petl.fromcsv(_files['mem:csv']),
    'x:frompickle-memory': lambda s: petl.frompickle(_files['mem:pickle']),
    'x:frompickle-memory2': lambda s: petl.frompickle(_files['mem:pickle2']),
    'x:fromtext-memory': lambda s: petl.fromtext(_files['mem:text']),
    'x:fromjson-memory': lambda s: petl.fromjson(_files['mem:json']),
    'x:fromjson-lines-memory': lambda s: petl.fromjson(_files['mem:jsonl'], lines=True),
    'x:fromdicts-list': lambda s: petl.fromdicts(list(_dictgen(len(s) - 1))),
    'x:fromdicts-generator': lambda s: petl.fromdicts(_dictgen(len(s) - 1), header=['a', 'b']),
    'x:fromdicts-generator-shared-cells': lambda s: petl.fromdicts(_dictgen_shared(len(s) - 1), header=['a', 'c', 'd', 't'], missing='n/a'),
    'x:fromdicts-generator-sparse': lambda s: petl.fromdicts(_dictgen_sparse(len(s) + 1), header=['a', 'b'], missing='-'),
    'x:fromdicts-list-sparse': lambda s: petl.fromdicts(list(_dictgen_sparse(len(s) + 1)), header=['a', 'b']),
    'x:fromdicts-generator-sample2': lambda s: petl.fromdicts(_dictgen(len(s) - 1), sample=2),
    'x:fromcolumns': lambda s: petl.fromcolumns([[1, 2, 3], ['a', 'b']]),
    'x:randomtable': lambda s: petl.randomtable(2, len(s) - 1, seed=3),
    'x:dummytable': lambda s: petl.dummytable(len(s) - 1, seed=3),
    # without a seed every view draws its own: the rows differ from view to view, not from pass to pass
    'x:randomtable-noseed': lambda s: petl.randomtable(2, len(s) - 1),
    'x:empty': lambda s: petl.empty(),
    'x:cache-n1': lambda s: _cache(s, n=1),
    'x:cache-of-sort': lambda s: _cache(petl.sort(s, 'f0', buffersize=2)),
    'x:sort-of-cache': lambda s: petl.sort(_cache(s), 'f0'),
    'x:biselect[0]': lambda s: petl.biselect(s, lambda r: r['f0'] == 1)[0],
    'x:biselect[1]': lambda s: petl.biselect(s, lambda r: r['f0'] == 1)[1],
    'x:unjoin[0]': lambda s: petl.unjoin(s, 'f2', key='f1')[0],
    'x:unjoin-nokey[1]': lambda s: petl.unjoin(s, 'f2')[1],
    'x:diff[1]': lambda s: petl.diff(s, C.table_same(3))[1],
    'x:hashjoin-of-sort': lambda s: petl.hashjoin(petl.sort(s, 'f0', buffersize=1), petl.sort(C.table_join(3), 'f0'), key='f0'),
}


def _all_views():
    names = []
    for e in C.ENTRIES.values():
        if e.kind in ('view', 'items') and not e.tee and e.c01:
            names.append(e.name)
    return names + sorted(EXTRA)


def _build(name, n, ragged, wrap=None, side=0):
    a = C.table_a(n, ragged=ragged)
    if wrap is not None and side == 0:
        a = wrap(a)
    if name in EXTRA:
        return EXTRA[name](a)
    e = C.by_name(name)
    if e.arity == 2:
        b = C.second_for(e, 3)
        if wrap is not None and side == 1:
            b = wrap(b)
        return e.build(a, b)
    return e.build(a)


# ---------------------------------------------------------------------------
# schedules

def _sibling(name):
    if name in EXTRA:
        return name
    fam = name.split('-')[0]
    sibs = sorted(e.name for e in C.views() if e.name != name and e.name.split('-')[0] == fam and e.arity == C.by_name(name).arity)
    return sibs[int(util.fp(name)[:4], 16) % len(sibs)] if sibs else name


def _word(s):
    """'s0 n0 s1 n1 x0' -> [['s',0],...]"""
    return [[t[0], int(t[1:])] for t in s.split()]


def _directed(L):
    full = lambda i: ['n%d' % i] * (L + 1)  # noqa: E731
    out = []
    out.append(' '.join(['s0', 's1'] + [x for _ in range(L + 1) for x in ('n0', 'n1')]))                    # round robin
    out.append(' '.join(['s0', 'n0', 's1'] + full(1) + full(0)))                                              # A one step, B to the end, A to the end
    half = max(1, (L + 1) // 2)
    out.append(' '.join(['s0'] + ['n0'] * half + ['s1'] + full(1) + full(0)))                                  # B started when A is half-way
    out.append(' '.join(['s0', 'n0', 'n0', 'x0', 's1'] + full(1)))                                            # A abandoned after its first data row
    out.append(' '.join(['s0', 's1'] + full(1) + ['s2', 'n2', 'n0', 'n2', 'n0'] + full(2) + full(0)))         # late start of early-created A under cache-served C
    out.append(' '.join(['s0', 's1'] + full(1) + ['s2', 'n0'] + full(2) + full(0)))                           # C created, A takes its first step, then C
    out.append(' '.join(['s0', 'n0', 'n0', 's1', 'n1', 'n1', 'n0', 's2'] + full(2) + ['n1'] + full(0) + full(1)))
    return out


def cases(ctx):
    rng = ctx.rng('schedules')
    # the fluent / method form of every catalogue operator (etl.wrap(t).op(...)) is the same view as the function form: it is
    # built in method form and judged against the solo run of the function form
    for name in _all_views():
        if name in C.ENTRIES:
            for n, w in ((3, 's0 s1 ' + 'n0 n1 ' * 5), (2, 's0 n0 n0 s1 ' + 'n1 ' * 4 + 'n0 ' * 4)):
                yield {'view': name, 'n': n, 'ragged': False, 'schedule': _word(w), 'method': True}
    for name in _all_views():
        sizes = [(0, False), (1, False), (2, False), (3, False), (3, True)]
        e = C.ENTRIES.get(name)
        if e is not None and not e.ragged:
            sizes = sizes[:-1]
        if name in EXTRA and not name.startswith(('x:cache', 'x:sort', 'x:biselect', 'x:unjoin', 'x:diff', 'x:hashjoin', 'x:fromdicts', 'x:randomtable', 'x:dummytable', 'x:randomtable-noseed')):
            sizes = [(3, False)]
        for n, ragged in sizes:
            L = n + 1           # nominal length (header + n rows); real length may differ, schedules are padded
            for w in _directed(L):
                yield {'view': name, 'n': n, 'ragged': ragged, 'schedule': _word(w)}
            # every interleaving of two complete consumptions
            if L + 1 <= 5:
                steps = L + 1
                combos = list(itertools.combinations(range(2 * steps), steps))
                if ctx.quick:
                    combos = rng.sample(combos, min(len(combos), 10))
                for upfront in (True, False):
                    for pos in combos:
                        posset = set(pos)
                        seq = ['n0' if i in posset else 'n1' for i in range(2 * steps)]
                        if upfront:
                            w = ['s0', 's1'] + seq
                        else:
                            w, started = [], set()
                            for t in seq:
                                if t[1] not in started:
                                    started.add(t[1])
                                    w.append('s' + t[1])
                                w.append(t)
                        yield {'view': name, 'n': n, 'ragged': ragged, 'schedule': _word(' '.join(w))}
            # all pairs of abandonment points under round robin, then a third iterator to the end
            pts = range(0, L + 2)
            pairs = list(itertools.product(pts, repeat=2))
            if ctx.quick:
                pairs = rng.sample(pairs, min(len(pairs), 6))
            for ka, kb in pairs:
                w = ['s0', 's1']
                a = b = 0
                while a < ka or b < kb:
                    if a < ka:
                        w.append('n0')
                        a += 1
                    if b < kb:
                        w.append('n1')
                        b += 1
                w += ['x0', 'x1', 's2'] + ['n2'] * (L + 1)
                yield {'view': name, 'n': n, 'ragged': ragged, 'schedule': _word(' '.join(w))}
            # another view (a sibling catalogue entry, or the same entry over another table) is built and read to the end while
            # iterators of this one are live, and before later ones start: views share no state
            for w in ('s0 n0 n0 o0 ' + 'n0 ' * L + 's1 ' + 'n1 ' * (L + 1), 'o0 s0 s1 n0 n1 o0 ' + 'n1 n0 ' * (L + 1)):
                yield {'view': name, 'n': n, 'ragged': ragged, 'schedule': _word(w)}
            # a pass during which the source fails once, at data row k, then ordinary passes: nothing the failed pass left behind
            # (a partial cache, a half-written spill file) may show in what later iterators yield
            if n >= 2 and (name not in EXTRA or name.startswith(('x:cache', 'x:sort', 'x:biselect', 'x:unjoin', 'x:diff', 'x:hashjoin'))):
                for k in range(1, n + 1):
                    for w in ('s0 ' + 'n0 ' * (L + 1) + 's1 s2 ' + 'n1 n2 ' * (L + 1), 's0 s1 ' + 'n1 ' * (L + 1) + 'n0 ' * (L + 1)):
                        yield {'view': name, 'n': n, 'ragged': ragged, 'schedule': _word(w), 'failpass': k}
                # the same with the fault in the *second* input of a binary operator (the side a hash join loads into its lookup,
                # the right side of a merge join / set operation)
                if name not in EXTRA and C.by_name(name).arity == 2 and n <= 3:
                    for k in range(1, 4):
                        for w in ('s0 ' + 'n0 ' * (L + 1) + 's1 s2 ' + 'n1 n2 ' * (L + 1), 's0 s1 ' + 'n1 ' * (L + 1) + 'n0 ' * (L + 1)):
                            yield {'view': name, 'n': n, 'ragged': ragged, 'schedule': _word(w), 'failpass': k, 'failside': 1}
            # random schedules with clearcache() calls in between, for the views that have one
            if name in CACHING or name.startswith(('sort', 'cache', 'x:cache', 'x:sort')):
                for _ in range(ctx.pick(25, 400)):
                    w, live, started = [], set(), set()
                    for _ in range(rng.randint(5, 3 * (L + 2))):
                        if rng.random() < 0.15 and started:
                            w.append('c0')
                            continue
                        i = rng.randrange(3)
                        if i not in started:
                            w.append('s%d' % i)
                            started.add(i)
                            live.add(i)
                            if rng.random() < 0.5:
                                continue
                        if i in live:
                            if rng.random() < 0.1:
                                w.append('x%d' % i)
                                live.discard(i)
                            else:
                                w.extend(['n%d' % i] * rng.choice([1, 1, 2, L + 1]))
                    yield {'view': name, 'n': n, 'ragged': ragged, 'schedule': _word(' '.join(w))}
            # random three-iterator schedules
            for _ in range(ctx.pick(6, 120)):
                w, live, started = [], set(), set()
                for _ in range(rng.randint(4, 3 * (L + 2))):
                    i = rng.randrange(3)
                    if i not in started:
                        w.append('s%d' % i)
                        started.add(i)
                        live.add(i)
                        if rng.random() < 0.5:
                            continue
                    if i in live:
                        if rng.random() < 0.08:
                            w.append('x%d' % i)
                            live.discard(i)
                        else:
                            w.append('n%d' % i)
                yield {'view': name, 'n': n, 'ragged': ragged, 'schedule': _word(' '.join(w))}


# ---------------------------------------------------------------------------

class _N(tuple):
    """canonical (type-strict) form of an item that prints as the item itself"""
    raw = None

    def __repr__(self):
        return repr(self.raw)


def _norm(r):
    # the row's own container kind is part of what a pass yields (['a', 1] != ('a', 1)): a pass that hands out lists where
    # another pass of the same view hands out tuples is not "the same sequence of rows"
    n = _N(((type(r).__name__,) + tuple(util.crow(r))) if isinstance(r, (list, tuple)) else (util.canon(r),))
    n.raw = tuple(r) if isinstance(r, (list, tuple)) else r
    return n


_solo_cache = {}


def _solo(name, n, ragged):
    key = (name, n, ragged)
    if key not in _solo_cache:
        a = [_norm(r) for r in iter(_build(name, n, ragged))]
        b = [_norm(r) for r in iter(_build(name, n, ragged))]
        _solo_cache[key] = a if a == b else None
    return _solo_cache[key]


SELF_SOLO = {'x:randomtable-noseed'}        # views whose reference sequence is their own first pass (no two of them are alike)


def judge(case, ctx):
    name, n, ragged = case['view'], case['n'], case['ragged']
    if name in SELF_SOLO:
        view0 = _build(name, n, ragged)
        solo0 = [_norm(r) for r in iter(view0)]
        ctx.seen('views-whose-reference-is-their-own-first-pass')
        saved = (_build, _solo)
        g = globals()
        g['_build'] = lambda nm, n_, rg, wrap=None, side=0: view0 if nm == name else saved[0](nm, n_, rg, wrap, side)
        g['_solo'] = lambda nm, n_, rg: solo0 if nm == name else saved[1](nm, n_, rg)
        try:
            return _judge(case, ctx)
        finally:
            g['_build'], g['_solo'] = saved
    return _judge(case, ctx)


def _judge(case, ctx):
    name, n, ragged = case['view'], case['n'], case['ragged']
    solo = _solo(name, n, ragged)
    if solo is None:
        ctx.seen('nondeterministic-twin:' + name)
        return {'kind': 'twin-views-differ', 'detail': 'two freshly built identical views, each iterated alone, returned different rows'}
    ctx.op('view:' + name)
    ctx.seen('views-judged')
    fp = case.get('failpass')
    if case.get('method'):
        ctx.seen('method-form-views')
        with C.method_form():
            view = _build(name, n, ragged)
    elif fp is None:
        view = _build(name, n, ragged)
    else:
        holder = []

        def wrap(a):
            holder.append(probes.CountingSource(a))
            return holder[0]
        view = _build(name, n, ragged, wrap, case.get('failside', 0))
        if case.get('failside'):
            ctx.seen('failed-pass:fault-in-the-second-input')
        src = holder[0]
        src.fail_next_at = fp
        try:
            for _ in iter(view):
                pass
            ctx.seen('failed-pass:fault-not-reached')
        except probes.InjectedFault:
            ctx.seen('failed-pass:source-failed-midway')
            ctx.mark_nontrivial()
        except Exception as e:  # noqa: the exception is the observation
            d = '%s: %s' % (type(e).__name__, e)
            del e
            return {'kind': 'iterator-raised', 'iterator': 'failing pass', 'detail': d}
        src.fail_next_at = None
    its, got, done = {}, {}, set()
    out = []
    others = []            # sibling views built during the schedule stay alive to its end
    last = None
    switches = 0
    midfill = False
    first_step = {}        # iterator -> global step count at its first next()
    steps_by = []          # sequence of iterator ids that performed a next()
    for op, i in case['schedule']:
        if op == 's':
            if i in its:
                continue
            # mid-fill: another iterator is strictly between its first and last data row
            for j in its:
                if j not in done and 2 <= len(got[j]) < len(solo):
                    midfill = True
            its[i] = iter(view)
            got[i] = []
        elif op == 'n':
            if i not in its or i in done:
                continue
            if last is not None and last != i and last in its and last not in done:
                switches += 1
            last = i
            first_step.setdefault(i, len(steps_by))
            steps_by.append(i)
            # disturbed: some other iterator took a step between this iterator's first step and this one
            disturbed = any(j != i for j in steps_by[first_step[i]:])
            try:
                r = next(its[i])
            except StopIteration:
                done.add(i)
                if got[i] != solo:
                    out.append({'kind': 'iterator-diverged', 'iterator': i, 'expected': solo, 'observed': got[i], 'ended': True,
                                'shape_ok': len(got[i]) == len(solo), 'steps-interleaved-with-another-iterator': disturbed})
                continue
            except Exception as e:  # noqa: the exception is the observation
                done.add(i)
                out.append({'kind': 'iterator-raised', 'iterator': i, 'detail': '%s: %s' % (type(e).__name__, e), 'delivered': len(got[i])})
                del e
                continue
            got[i].append(_norm(r))
            k = len(got[i])
            if k > len(solo) or got[i][k - 1] != solo[k - 1]:
                done.add(i)
                out.append({'kind': 'iterator-diverged', 'iterator': i, 'expected': solo, 'observed': got[i], 'ended': False,
                            'shape_ok': k <= len(solo) and len(got[i][k - 1]) == len(solo[k - 1]),
                            'steps-interleaved-with-another-iterator': disturbed})
        elif op == 'x':
            if i in its:
                del its[i]
                done.add(i)
                gc.collect()
        elif op == 'o':
            # another view comes into being and is read to the end while this one's iterators are live: a sibling entry of the
            # catalogue (same operator family, other arguments) or the same entry over another table.  Views share nothing
            sib = _sibling(name)
            steps_by.append(-1)        # counts as a step taken by someone else
            ov = util.attempt(lambda: _build(sib, n + 2 if sib == name else n, case['ragged']))
            if not isinstance(ov, util.Raised):
                others.append(ov)
                for v_ in (ov if isinstance(ov, (list, tuple)) else list(ov.values()) if isinstance(ov, dict) else [ov]):
                    util.attempt(lambda: [None for _ in iter(v_)])
                ctx.seen('another-view-built-and-read-between-steps')
        elif op == 'c':
            # the public clearcache() of the caching views, called while iterators are live
            if hasattr(view, 'clearcache'):
                view.clearcache()
                ctx.seen('clearcache-under-live-iterators')
    ctx.seen('schedules-run')
    advanced = [j for j in got if len(got[j]) >= 2]
    if len(advanced) >= 2 and switches >= 1:
        ctx.mark_nontrivial()
    if midfill and name in CACHING:
        ctx.seen('midfill:' + name)
    # two fresh full passes after the schedule (live iterators are still around)
    for p in (1, 2):
        fresh = util.attempt(lambda: [_norm(r) for r in iter(view)])
        ctx.seen('fresh-passes-compared')
        if isinstance(fresh, util.Raised):
            out.append({'kind': 'fresh-pass-raised', 'pass': p, 'detail': fresh.text})
        elif fresh != solo:
            out.append({'kind': 'fresh-pass-differs', 'pass': p, 'expected': solo, 'observed': fresh,
                        'shape_ok': len(fresh) == len(solo) and all(len(x) == len(y) for x, y in zip(fresh, solo))})
    return out[:4]
