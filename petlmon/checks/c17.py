"""C17  Database loads round-trip and are all-or-nothing when the source fails.

Fault enumeration on sqlite3: prior contents x new table x *every* fail point
of the source (header, each data row, exhaustion, none) x four handle kinds x
commit flag x {todb, appenddb}.  State oracle: SELECT * through a fresh
connection after petl's call has returned control.  Trace oracle: the sqlite
statement log must not contain a COMMIT after the load statements of a load
whose source failed.
"""
from __future__ import annotations

import os
import sqlite3

import petl

from petlmon import probes, util
from petlmon.probes import InjectedFault
from petlmon.run import Inconclusive

ID = 'C17'
LEVEL = 'fault_enumeration'
RULE = ('cases = (function, handle kind, commit flag, prior rows 0-3, new rows 0-4, fail point in {none, header, every data row, '
        'exhaustion}, identifier/cell flavour); the cross product is enumerated completely in thorough and in quick for prior <= 2, '
        'new <= 3 (plus a seeded sample of typed-cell / quoted-identifier round trips). Non-trivial: prior contents non-empty and the '
        'source fails after at least one row was handed to the driver, or a successful load with both prior and new rows. Distinct = SHA-1.')
ASSUMPTIONS = ['sqlite3 only (no other driver in the sandbox)', 'a fresh sqlite3 connection observes committed state only',
               'rollback-journal mode: readers are not blocked by the caller\'s open write transaction on small tables']
HANDLES = ['filename', 'connection', 'cursor', 'mkcurs']
EXCS = sorted(probes.FAULT_TYPES)
REQUIRED = (['handle:' + h for h in HANDLES] + ['fn:todb', 'fn:appenddb', 'commit:True', 'commit:False', 'fail:none', 'fail:header',
            'fail:first-row', 'fail:last-row', 'fail:exhaustion', 'rolled-back-load-left-previous-contents', 'commit=False-invisible-until-caller-commits',
            'long-load', 'source-read-through-the-same-connection', 'pending-load-read-back-through-the-same-connection', 'roundtrip-typed-cells', 'quoted-identifiers', 'sql-statements-traced', 'source-fields-in-another-order-than-the-table-columns', 'transaction-larger-than-the-page-cache', 'database-file-name-with-uri-characters', 'schema-qualified', 'fromdb-handle-kinds', 'fromdb-two-readers'] + ['exc:' + e for e in EXCS])
EXHAUSTIVE = {'quick': False, 'thorough': False}   # the enumerated families are complete within their bounds, but a seeded random family is judged too

CELLS = [None, 0, 1, -5, 2 ** 40, 1.5, -0.25, '', 'a', "it's", 'say "hi"', 'é€漢', 'x;y', b'', b'\x00\xff', 'NULL', ' lead',
         '2020-01-01', '2020-01-01 12:30:00', 'unknown']      # text that a column declared DATE / TIMESTAMP still returns as the text it is


DBNAMES = ['c17-%d.db', 'c17-%d.db', 'c17 %d #1?mode=rw&x=%%31.db', 'c17-%d%%41%%2f.db', "c17-%d 'q' é.db"]


def cases(ctx):
    maxp, maxn = ctx.pick(3, 4), ctx.pick(4, 6)
    count = [0]
    for fn in ('todb', 'appenddb'):
        for handle in HANDLES:
            for commit in (True, False):
                for p in range(0, maxp + 1):
                    for n in range(0, maxn + 1):
                        for fail in [None] + list(range(0, n + 2)):
                            count[0] += 1
                            exc = EXCS[count[0] % len(EXCS)] if fail is not None else None
                            yield {'fn': fn, 'handle': handle, 'commit': commit, 'prior': p, 'new': n, 'fail': fail, 'flavour': 'plain', 'exc': exc,
                                   'schema': 'aux' if count[0] % 5 == 0 else None}
    # long loads (a driver-side or petl-side batching of the inserts must neither lose nor repeat a row, and a failure deep into the
    # load still leaves nothing behind)
    for fn in ('todb', 'appenddb'):
        for handle in HANDLES:
            for n in ctx.pick((1001, 2500), (999, 1000, 1001, 2000, 2001, 2500, 10007)):
                for fail in (None, n - 2):
                    count[0] += 1
                    yield {'fn': fn, 'handle': handle, 'commit': True, 'prior': 2, 'new': n, 'fail': fail, 'flavour': 'plain',
                           'exc': EXCS[count[0] % len(EXCS)] if fail is not None else None, 'schema': None}
    # loads whose open transaction outgrows the page cache, failing early or at the very end, on every handle kind
    for fn in ('todb', 'appenddb'):
        # (a failed load through the caller's own connection stays pending there, and once it has spilled SQLite locks other
        # connections out until the caller resolves it: only the file-name handle, where petl owns the connection, is judged
        # after a failure)
        for handle, n, fail in (('filename', 100, 50), ('filename', 30000, 30000), ('filename', 20000, None), ('connection', 20000, None)):
            count[0] += 1
            yield {'fn': fn, 'handle': handle, 'commit': True, 'prior': 30000, 'new': n, 'fail': fail, 'flavour': 'plain',
                   'exc': EXCS[count[0] % len(EXCS)] if fail is not None else None, 'schema': None, 'wide': True}
    # the rows to load come out of the same database through the same connection (fromdb on the handle that todb / appenddb
    # writes through): reading the source must not disturb the pending load
    for fn in ('todb', 'appenddb'):
        for handle in [h for h in HANDLES if h != 'filename']:
            for commit in (True, False):
                for p in (0, 2):
                    for n in (0, 1, 3):
                        yield {'fn': fn, 'handle': handle, 'commit': commit, 'prior': p, 'new': n, 'fail': None, 'flavour': 'plain', 'exc': None,
                               'schema': None, 'via_fromdb': True}
    rng = ctx.rng('flavours')
    for i in range(ctx.pick(1500, 20000)):
        n = rng.randint(0, 4)
        yield {'fn': rng.choice(['todb', 'appenddb']), 'handle': rng.choice(HANDLES), 'commit': rng.random() < 0.7, 'prior': rng.randint(0, 3),
               'new': n, 'fail': rng.choice([None, None, None] + list(range(0, n + 2))), 'flavour': 'typed', 'exc': rng.choice(EXCS),
               'schema': rng.choice([None, None, 'aux']),
               'cells': [[rng.choice(CELLS), rng.choice(CELLS)] for _ in range(n)],
               'table': rng.choice(['t', 'my table', 'we"ird', 'select', 'T-1', 'st.ev', 'main.t']), 'fields': rng.choice([['a', 'b'], ['a b', 'c"d'], ['select', 'from'], ['é', 'ü']]),
               # declared column types (BLOB: no affinity; DATE, TIMESTAMP: numeric affinity, which leaves text that is not a numeral, blobs and numbers as they are; a TEXT column would turn numbers into text)
               'decl': rng.choice([None, None, ['DATE', 'TIMESTAMP'], ['TIMESTAMP', 'DATE'], ['BLOB', 'DATE'], ['BLOB', 'TIMESTAMP']])}


def _q(s):
    return '"' + s.replace('"', '""') + '"'


def _fresh_select(path, tbl):
    try:
        c = sqlite3.connect(path, timeout=2)
        try:
            return [tuple(r) for r in c.execute('SELECT * FROM %s' % _q(tbl)).fetchall()]
        finally:
            c.close()
    except sqlite3.OperationalError as e:
        if 'locked' in str(e):
            raise Inconclusive('fresh connection could not read: %s' % e)
        raise


def judge(case, ctx):
    fn, handle, commit, fail = case['fn'], case['handle'], case['commit'], case['fail']
    tbl = case.get('table', 't')
    fields = case.get('fields', ['a', 'b'])
    prior = [(100 + i, 'p%d' % i) for i in range(case['prior'])]
    if case.get('wide'):
        # rows of ~120 bytes: with tens of thousands of them the open transaction outgrows SQLite's page cache (2 MB by default),
        # so pages reach the file before the load fails and only the journal can take them back
        prior = [(a_, b_ + '-' + 'x' * 110) for a_, b_ in prior]
        ctx.seen('transaction-larger-than-the-page-cache')
    if case['flavour'] == 'typed':
        new = [tuple(r) for r in case['cells']]
        ctx.seen('roundtrip-typed-cells')
        if tbl != 't' or fields != ['a', 'b']:
            ctx.seen('quoted-identifiers')
    else:
        new = [(i, 'n%d' % i + ('-' + 'y' * 110 if case.get('wide') else '')) for i in range(case['new'])]
    n = len(new)
    if n > 1000:
        ctx.seen('long-load')
    ctx.op('handle:' + handle)
    ctx.op('fn:' + fn)
    ctx.seen('commit:%s' % commit)
    if fail is None:
        ctx.seen('fail:none')
    elif fail == 0:
        ctx.seen('fail:header')
    elif fail == n + 1:
        ctx.seen('fail:exhaustion')
    else:
        if fail == 1:
            ctx.seen('fail:first-row')
        if fail == n:
            ctx.seen('fail:last-row')
    if prior and ((fail is not None and fail >= 2) or (fail is None and new)):
        ctx.mark_nontrivial()

    # the database file's name is an ordinary path: characters that mean something in a URI (% # ? & =) or to a shell are part of it
    dbname = DBNAMES[int(util.fp(sorted(case.items(), key=repr))[:6], 16) % len(DBNAMES)]
    if dbname != DBNAMES[0]:
        ctx.seen('database-file-name-with-uri-characters')
    path = os.path.join(ctx.scratch, dbname % os.getpid())
    for suffix in ('', '-journal', '-wal', '-shm'):
        if os.path.exists(path + suffix):
            os.remove(path + suffix)
    decl = case.get('decl') or ['', '']
    if case.get('decl'):
        ctx.seen('columns-with-declared-types')
    if '.' in tbl:
        ctx.seen('table-name-with-a-dot')
    cols = ', '.join((_q(f) + ' ' + d).strip() for f, d in zip(fields, decl))
    setup = sqlite3.connect(path)
    setup.execute('CREATE TABLE %s (%s)' % (_q(tbl), cols))
    setup.executemany('INSERT INTO %s VALUES (?, ?)' % _q(tbl), prior)
    if case.get('via_fromdb'):
        setup.execute('CREATE TABLE "src" (%s)' % cols)
        setup.executemany('INSERT INTO "src" VALUES (?, ?)', new)
    setup.commit()
    setup.close()
    # schema-qualified loads: a second database file is ATTACHed as "aux" and holds a table of the same name; the load
    # must touch aux.<table> only and leave main.<table> alone.  (A file-name handle cannot carry an attachment.)
    schema = case.get('schema') if handle != 'filename' else None
    aux_path = path + '.aux'
    main_guard = [(900 + i, 'main-only-%d' % i) for i in range(2)]
    if os.path.exists(aux_path):
        os.remove(aux_path)
    if schema:
        ctx.seen('schema-qualified')
        s2 = sqlite3.connect(aux_path)
        s2.execute('CREATE TABLE %s (%s)' % (_q(tbl), cols))
        s2.executemany('INSERT INTO %s VALUES (?, ?)' % _q(tbl), prior)
        s2.commit()
        s2.close()
        # main.<table> gets different contents, so a statement that goes to the wrong table is seen
        s3 = sqlite3.connect(path)
        s3.execute('DELETE FROM %s' % _q(tbl))
        s3.executemany('INSERT INTO %s VALUES (?, ?)' % _q(tbl), main_guard)
        s3.commit()
        s3.close()

    Fault = probes.FAULT_TYPES[case.get('exc') or 'InjectedFault']
    if fail is not None:
        ctx.seen('exc:' + (case.get('exc') or 'InjectedFault'))
    srows = [list(fields)] + [list(r) for r in new]
    if int(util.fp(sorted(case.items(), key=repr))[6:8], 16) % 4 == 0 and len(fields) == 2:
        # the table to load names its fields in another order than the database table declares its columns: values go by name
        srows = [list(reversed(r)) for r in srows]
        ctx.seen('source-fields-in-another-order-than-the-table-columns')
    source = probes.FailingSource(srows, fail_at=fail, exc=Fault)
    out = []
    with probes.SqlTrace() as trace:
        conn = None
        if handle == 'filename':
            dbo = path
        else:
            conn = trace.connect(path, timeout=2)
            if schema:
                conn.execute('ATTACH DATABASE ? AS aux', (aux_path,))
            if handle == 'connection':
                dbo = conn
            elif handle == 'cursor':
                dbo = conn.cursor()
            else:
                dbo = lambda: conn.cursor()  # noqa: E731
        if case.get('via_fromdb') and conn is not None:
            source = petl.fromdb(conn, 'SELECT * FROM "src" ORDER BY rowid')
            ctx.seen('source-read-through-the-same-connection')
        mark = len(trace.log)
        raised = None
        try:
            if schema:
                getattr(petl, fn)(source, dbo, tbl, schema=schema, commit=commit)
            else:
                getattr(petl, fn)(source, dbo, tbl, commit=commit)
        except Fault as e:
            raised = 'InjectedFault'
            del e
        except sqlite3.OperationalError as e:
            if 'locked' in str(e):
                raise Inconclusive(str(e))
            raise
        stmts = [s for s in trace.log[mark:]]
        ctx.seen('sql-statements-traced', len(stmts))
        # ---- control has returned: what does a fresh connection see?
        seen = _fresh_select(aux_path if schema else path, tbl)
        if schema:
            main_now = _fresh_select(path, tbl)
            if util.crows(main_now) != util.crows(main_guard):
                out.append({'kind': 'schema-qualified-load-touched-the-unqualified-table', 'expected-main': main_guard, 'observed-main': main_now, 'statements': stmts[-8:]})
        loaded = (new if fn == 'todb' else prior + new)
        if fail is not None:
            if raised is None:
                out.append({'kind': 'source-failure-swallowed', 'statements': stmts[-6:]})
            expected_now = prior
        else:
            if raised is not None:
                out.append({'kind': 'unexpected-exception', 'detail': raised})
            expected_now = loaded if (commit or handle == 'filename' and commit) else prior
        if util.crows(seen) != util.crows(expected_now):
            big = len(expected_now) > 200 or len(seen) > 200
            out.append({'kind': 'fresh-connection-sees-wrong-contents', 'when': 'after call returned' if fail is None else 'after call raised',
                        'expected': expected_now if not big else '%d rows, the first: %r' % (len(expected_now), expected_now[:2]),
                        'observed': seen if not big else '%d rows, the first: %r' % (len(seen), seen[:2]), 'statements': stmts[-8:]})
        elif fail is not None and prior and fail >= 1:
            ctx.seen('rolled-back-load-left-previous-contents')
        # ---- statement log: no COMMIT after the load statements of a failing load
        if fail is not None:
            first_load = next((i for i, s in enumerate(stmts) if s.upper().startswith(('DELETE', 'INSERT'))), None)
            if first_load is not None and any(s.upper().startswith('COMMIT') for s in stmts[first_load:]):
                out.append({'kind': 'commit-after-load-statements-of-a-failing-load', 'statements': stmts})
        # ---- commit=False on the caller's connection: invisible until the caller commits, complete afterwards
        if fail is None and not commit and conn is not None and not out:
            # ... and visible, pass after pass, to a fromdb on that same connection (reading does not end the caller's transaction)
            for p_ in (1, 2):
                own = util.attempt_rows(lambda: petl.fromdb(conn, 'SELECT * FROM %s%s' % ((_q(schema) + '.') if schema else '', _q(tbl))))
                if isinstance(own, util.Raised) or util.crows(own[1:]) != util.crows(loaded):
                    out.append({'kind': 'own-connection-does-not-see-its-pending-load', 'pass': p_, 'expected': loaded,
                                'observed': own if not isinstance(own, util.Raised) else own.text})
                    break
            ctx.seen('pending-load-read-back-through-the-same-connection')
        if fail is None and not commit and conn is not None and not out:
            conn.commit()
            seen2 = _fresh_select(aux_path if schema else path, tbl)
            if util.crows(seen2) != util.crows(loaded):
                out.append({'kind': 'after-caller-commit-contents-wrong', 'expected': loaded, 'observed': seen2})
            else:
                ctx.seen('commit=False-invisible-until-caller-commits')
        # ---- round trip through fromdb
        if fail is None and commit and not out and not schema:
            q = 'SELECT * FROM %s' % _q(tbl)
            got = util.attempt_rows(lambda: petl.fromdb(path, q))
            exp = [tuple(fields)] + loaded
            if isinstance(got, util.Raised) or util.crows(got) != util.crows(exp):
                out.append({'kind': 'fromdb-roundtrip-differs', 'expected': exp, 'observed': repr(got) if isinstance(got, util.Raised) else got})
            if conn is not None:
                # every handle kind fromdb accepts, two passes each
                for hname, h in (('connection', conn), ('cursor-factory', lambda: conn.cursor()), ('cursor', conn.cursor())):
                    v = petl.fromdb(h, q)
                    for p_ in (1, 2):
                        got2 = util.attempt_rows(lambda: v)
                        if isinstance(got2, util.Raised) or util.crows(got2) != util.crows(exp):
                            out.append({'kind': 'fromdb(%s)-roundtrip-differs' % hname, 'pass': p_, 'expected': exp,
                                        'observed': repr(got2) if isinstance(got2, util.Raised) else got2})
                            break
                ctx.seen('fromdb-handle-kinds')
            # two readers of one fromdb view (file name, connection, cursor factory), one lagging behind the other: each gets the table
            for hname, h in (('filename', path),) + ((('connection', conn), ('cursor-factory', lambda: conn.cursor())) if conn is not None else ()):
                v = petl.fromdb(h, q)
                a_, b_ = iter(v), iter(v)
                ga, gb = [], []
                try:
                    for _ in range(min(2, len(exp))):
                        ga.append(tuple(next(a_)))
                    gb.extend(tuple(r) for r in b_)
                    ga.extend(tuple(r) for r in a_)
                except Exception as e:  # noqa: the exception is the observation
                    out.append({'kind': 'exception', 'fn': 'fromdb(%s), two readers' % hname, 'detail': '%s: %s' % (type(e).__name__, e)})
                    del e
                    break
                if util.crows(ga) != util.crows(exp) or util.crows(gb) != util.crows(exp):
                    out.append({'kind': 'fromdb(%s)-two-readers-differ' % hname, 'expected': exp, 'lagging-reader': ga, 'other-reader': gb})
                    break
                del a_, b_
            ctx.seen('fromdb-two-readers')
        if conn is not None:
            try:
                conn.rollback()
            finally:
                conn.close()
    return out
