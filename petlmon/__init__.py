"""Runtime monitors for the petl properties C01..C20 (see /verif/DESIGN.md)."""
