"""Operator catalogue (DESIGN 2.3): one entry per public constructor / argument
form.  C01, C02, C03, C16 and C20 iterate it, so adding an operator here extends
all of them.

Every builder takes its input tables and returns what the petl call returns.
Inputs follow one schema so that the same builder works on tiny tables,
header-only tables and 10 000-row instrumented sources:

    A (first / only input):  fields f0 (small int), f1 ('v<d>' text), f2 (digit text)
    B for joins:             fields f0, g1
    B for set operations:    same fields as A

kind:   'view'   a table (rows, header first)
        'items'  an iterable container of non-row items (values, dicts, ...)
        'scalar' a plain Python value
        'multi'  a tuple of views;  'dictviews' a dict of views
stream: index of the input that the operator streams (C02 prefix clause), or None
hdr:    True if construction may legitimately read header rows
"""
from __future__ import annotations

import io
import logging
import os
from collections import OrderedDict

import petl as etl
from petl.util.materialise import cache as _cache


class Entry(object):
    def __init__(self, name, fn, arity=1, kind='view', stream=None, hdr=False, tee=False, second='join', group='',
                 hdrdep=False, lookahead=0, c01=True, ragged=True, note=''):
        self.name = name
        self.fn = fn
        self.arity = arity
        self.kind = kind
        self.stream = stream
        self.hdr = hdr
        self.tee = tee
        self.second = second      # schema of the second input: 'join' (f0, g1) or 'same'
        self.group = group
        self.hdrdep = hdrdep      # output header depends on the data rows
        self.lookahead = lookahead
        self.c01 = c01
        self.ragged = ragged      # tolerates rows shorter / longer than the header
        self.note = note

    def build(self, *sources):
        return self.fn(*sources)


ENTRIES = OrderedDict()


def E(name, fn, **kw):
    assert name not in ENTRIES, name
    ENTRIES[name] = Entry(name, fn, **kw)


_null_logger = logging.getLogger('petlmon.null')
_null_logger.addHandler(logging.NullHandler())
_null_logger.propagate = False


class _Sink(io.StringIO):
    pass


# ---------------------------------------------------------------------------
# basics
E('cut', lambda s: etl.cut(s, 'f0', 'f2'), stream=0, group='basics')
E('cut-index', lambda s: etl.cut(s, 2, 0), stream=0, group='basics')
E('cutout', lambda s: etl.cutout(s, 'f1'), stream=0, group='basics')
E('cat', lambda s: etl.cat(s), stream=0, group='basics')
E('cat-header', lambda s: etl.cat(s, header=['f2', 'zz', 'f0']), stream=0, group='basics')
E('stack', lambda s: etl.stack(s), stream=0, group='basics')
E('addfield', lambda s: etl.addfield(s, 'z', lambda r: r['f0']), stream=0, group='basics')
E('addfield-index', lambda s: etl.addfield(s, 'z', 7, index=0), stream=0, group='basics')
E('addfields', lambda s: etl.addfields(s, [('z', 1), ('y', lambda r: r['f1'], 0)]), stream=0, group='basics')
E('rowslice', lambda s: etl.rowslice(s, 1, None), stream=0, group='basics')
E('rowslice-step', lambda s: etl.rowslice(s, 0, None, 2), stream=0, group='basics')
E('head', lambda s: etl.head(s, 50), stream=0, group='basics')
E('tail', lambda s: etl.tail(s, 2), group='basics')
E('skipcomments', lambda s: etl.skipcomments(s, '#'), stream=0, group='basics')
E('movefield', lambda s: etl.movefield(s, 'f2', 0), stream=0, group='basics')
E('annex1', lambda s: etl.annex(s, [['q'], [1]]), stream=0, group='basics')
E('addrownumbers', lambda s: etl.addrownumbers(s), stream=0, group='basics')
E('addcolumn', lambda s: etl.addcolumn(s, 'q', [1, 2, 3]), stream=0, group='basics', ragged=False)
E('addfieldusingcontext', lambda s: etl.addfieldusingcontext(s, 'q', lambda p, c, n: 1 if p is None else 2), stream=0, lookahead=1, group='basics')
# headers
E('rename', lambda s: etl.rename(s, 'f0', 'g'), stream=0, group='headers')
E('rename-dict', lambda s: etl.rename(s, {'f0': 'g', 2: 'h'}), stream=0, group='headers')
E('setheader', lambda s: etl.setheader(s, ['a', 'b', 'c']), stream=0, group='headers')
E('extendheader', lambda s: etl.extendheader(s, ['zz']), stream=0, group='headers')
E('pushheader', lambda s: etl.pushheader(s, ['a', 'b', 'c']), stream=0, group='headers')
E('skip', lambda s: etl.skip(s, 1), stream=0, group='headers', hdrdep=True)
E('prefixheader', lambda s: etl.prefixheader(s, 'p'), stream=0, group='headers')
E('suffixheader', lambda s: etl.suffixheader(s, 'p'), stream=0, group='headers')
E('sortheader', lambda s: etl.sortheader(s, reverse=True), stream=0, group='headers')
# conversions
E('convert', lambda s: etl.convert(s, 'f0', str), stream=0, group='conversions')
E('convert-dict', lambda s: etl.convert(s, {'f0': lambda v: v + 1, 'f1': 'upper', 'f2': {'1': 'one'}}), stream=0, group='conversions')
E('convert-where', lambda s: etl.convert(s, 'f0', lambda v: -v, where=lambda r: r['f0'] % 2 == 0), stream=0, group='conversions')
E('convert-passrow', lambda s: etl.convert(s, 'f1', lambda v, row: v + row['f2'], pass_row=True), stream=0, group='conversions')
E('convertall', lambda s: etl.convertall(s, str), stream=0, hdr=True, group='conversions')
E('convertnumbers', lambda s: etl.convertnumbers(s), stream=0, hdr=True, group='conversions')
E('replace', lambda s: etl.replace(s, 'f1', 'v1', 'X'), stream=0, group='conversions')
E('replaceall', lambda s: etl.replaceall(s, 'v1', 'X'), stream=0, hdr=True, group='conversions')
E('update', lambda s: etl.update(s, 'f1', 'X'), stream=0, group='conversions')
E('format', lambda s: etl.format(s, 'f0', '{:03d}'), stream=0, group='conversions')
E('formatall', lambda s: etl.formatall(s, '{}'), stream=0, hdr=True, group='conversions')
E('interpolate', lambda s: etl.interpolate(s, 'f0', '%03d'), stream=0, group='conversions')
E('interpolateall', lambda s: etl.interpolateall(s, '%s'), stream=0, hdr=True, group='conversions')
# selects
E('select', lambda s: etl.select(s, lambda r: r['f0'] != 1), stream=0, group='selects')
E('select-expr', lambda s: etl.select(s, '{f0} != 1'), stream=0, group='selects')
E('select-field', lambda s: etl.select(s, 'f0', lambda v: v != 1), stream=0, group='selects')
E('selecteq', lambda s: etl.selecteq(s, 'f0', 1), stream=0, group='selects')
E('selectne', lambda s: etl.selectne(s, 'f0', 1), stream=0, group='selects')
E('selectlt', lambda s: etl.selectlt(s, 'f0', 10 ** 9), stream=0, group='selects')
E('selectle', lambda s: etl.selectle(s, 'f0', 10 ** 9), stream=0, group='selects')
E('selectgt', lambda s: etl.selectgt(s, 'f0', -1), stream=0, group='selects')
E('selectge', lambda s: etl.selectge(s, 'f0', -1), stream=0, group='selects')
E('selectcontains', lambda s: etl.selectcontains(s, 'f1', 'v'), stream=0, group='selects', ragged=False)
E('selectin', lambda s: etl.selectin(s, 'f2', ['0', '1', '2', 'x', 'y']), stream=0, group='selects')
E('selectnotin', lambda s: etl.selectnotin(s, 'f0', [1]), stream=0, group='selects')
E('selectis', lambda s: etl.selectis(s, 'f0', None, complement=True), stream=0, group='selects')
E('selectisnot', lambda s: etl.selectisnot(s, 'f0', None), stream=0, group='selects')
E('selectisinstance', lambda s: etl.selectisinstance(s, 'f0', int), stream=0, group='selects')
E('selectrangeopenleft', lambda s: etl.selectrangeopenleft(s, 'f0', -1, 10 ** 9), stream=0, group='selects')
E('selectrangeopenright', lambda s: etl.selectrangeopenright(s, 'f0', -1, 10 ** 9), stream=0, group='selects')
E('selectrangeopen', lambda s: etl.selectrangeopen(s, 'f0', -1, 10 ** 9), stream=0, group='selects')
E('selectrangeclosed', lambda s: etl.selectrangeclosed(s, 'f0', -1, 10 ** 9), stream=0, group='selects')
E('selecttrue', lambda s: etl.selecttrue(s, 'f1'), stream=0, group='selects')
E('selectfalse', lambda s: etl.selectfalse(s, 'f1', complement=True), stream=0, group='selects')
E('selectnone', lambda s: etl.selectnone(s, 'f0', complement=True), stream=0, group='selects')
E('selectnotnone', lambda s: etl.selectnotnone(s, 'f0'), stream=0, group='selects')
E('selectusingcontext', lambda s: etl.selectusingcontext(s, lambda p, c, n: True), stream=0, lookahead=1, group='selects')
E('rowlenselect', lambda s: etl.rowlenselect(s, 3), stream=0, group='selects')
E('facet', lambda s: etl.facet(s, 'f0'), kind='dictviews', group='selects')
E('biselect', lambda s: etl.biselect(s, lambda r: r['f0'] == 1), kind='multi', group='selects')
# fills
E('filldown', lambda s: etl.filldown(s), stream=0, group='fills', ragged=False)
E('filldown-field', lambda s: etl.filldown(s, 'f0', 'f1'), stream=0, group='fills', ragged=False)
E('fillright', lambda s: etl.fillright(s), stream=0, group='fills')
E('fillleft', lambda s: etl.fillleft(s), stream=0, group='fills')
# maps
E('fieldmap', lambda s: etl.fieldmap(s, OrderedDict([('a', 'f0'), ('b', ('f1', lambda v: v.upper())), ('c', lambda r: r['f2'] * 2), ('d', '{f0} + 1')])),
  stream=0, group='maps')


def _fieldmap_incremental(s, spec):
    # the documented incremental style: an empty fieldmap view, mappings added afterwards
    v = etl.fieldmap(s)
    for k, m in spec:
        v[k] = m
    return v


E('fieldmap-incremental', lambda s: _fieldmap_incremental(s, [('a', 'f0'), ('twice', lambda r: r['f2'] * 2)]), stream=0, group='maps')
E('fieldmap-incremental-other', lambda s: _fieldmap_incremental(s, [('b', 'f1'), ('c', 'f2'), ('n', ('f0', {1: 'one'}))]), stream=0, group='maps')
E('rowmap', lambda s: etl.rowmap(s, lambda r: [r[0], r[1]], ['a', 'b']), stream=0, group='maps')
E('rowmapmany', lambda s: etl.rowmapmany(s, lambda r: [[r[0], 1], [r[0], 2]], ['a', 'b']), stream=0, group='maps')
E('rowgroupmap', lambda s: etl.rowgroupmap(s, 'f0', lambda k, rows: [(k, len(list(rows)))], header=['f0', 'n']), group='maps')
# regex
E('capture', lambda s: etl.capture(s, 'f1', '(.)(.*)', ['p', 'q']), stream=0, group='regex', ragged=False)
E('capture-include', lambda s: etl.capture(s, 'f1', '(.)', ['p'], include_original=True), stream=0, group='regex', ragged=False)
E('split', lambda s: etl.split(s, 'f1', 'v', ['p', 'q']), stream=0, group='regex', ragged=False)
E('splitdown', lambda s: etl.splitdown(s, 'f1', 'v'), stream=0, group='regex', ragged=False)
E('sub', lambda s: etl.sub(s, 'f1', 'v', 'w'), stream=0, group='regex')
E('search', lambda s: etl.search(s, 'f1', 'v'), stream=0, group='regex', ragged=False)
E('search-all', lambda s: etl.search(s, '.'), stream=0, group='regex')
E('searchcomplement', lambda s: etl.searchcomplement(s, 'f1', 'zzz'), stream=0, group='regex', ragged=False)
# unpacks
E('unpack', lambda s: etl.unpack(etl.convert(s, 'f1', lambda v: (v, v + '!')), 'f1', ['p', 'q']), stream=0, group='unpacks', ragged=False)
E('unpack-include', lambda s: etl.unpack(etl.convert(s, 'f1', lambda v: [v]), 'f1', ['p', 'q'], include_original=True, missing='M'), stream=0, group='unpacks', ragged=False)
E('unpackdict-keys', lambda s: etl.unpackdict(etl.convert(s, 'f1', lambda v: {'p': v}), 'f1', keys=['p', 'q']), stream=0, group='unpacks', ragged=False)
E('unpackdict', lambda s: etl.unpackdict(etl.convert(s, 'f1', lambda v: {'p': v}), 'f1'), group='unpacks', hdrdep=True, ragged=False)
# reshape
E('melt', lambda s: etl.melt(s, 'f0'), stream=0, group='reshape')
E('melt-variables', lambda s: etl.melt(s, key=['f0', 'f1'], variables=['f2'], variablefield='var', valuefield='val'), stream=0, group='reshape', ragged=False)
E('recast', lambda s: etl.recast(etl.melt(s, 'f0')), group='reshape', hdrdep=True)
E('recast-variables', lambda s: etl.recast(etl.melt(s, 'f0'), variablefield='variable', valuefield='value', samplesize=3,
                                           reducers={'f1': list}, missing='M'), group='reshape', hdrdep=True)
E('transpose', lambda s: etl.transpose(s), group='reshape', hdrdep=True, ragged=False)
E('pivot', lambda s: etl.pivot(s, 'f0', 'f1', 'f2', list), group='reshape', hdrdep=True, ragged=False)
E('flatten', lambda s: etl.flatten(s), kind='items', stream=0, group='reshape')
E('unflatten', lambda s: etl.unflatten(etl.flatten(s), 3), stream=0, group='reshape', lookahead=2)
E('unflatten-field', lambda s: etl.unflatten(s, 'f1', 2), stream=0, group='reshape', lookahead=2)
# sort
E('sort', lambda s: etl.sort(s), group='sort')
E('sort-key', lambda s: etl.sort(s, 'f1'), group='sort')
E('sort-mem-nocache', lambda s: etl.sort(s, 'f0', cache=False), group='sort')
E('sort-file-cache', lambda s: etl.sort(s, 'f0', buffersize=2), group='sort')
E('sort-file-nocache', lambda s: etl.sort(s, 'f0', buffersize=2, cache=False), group='sort')
E('sort-reverse-file', lambda s: etl.sort(s, 'f0', buffersize=1, reverse=True), group='sort')
E('mergesort1', lambda s: etl.mergesort(s, [['f0', 'f1', 'f2'], [2, 'm', 'n']], key='f0'), group='sort')
E('issorted', lambda s: etl.issorted(s, 'f0'), kind='scalar', group='sort')
# reductions
E('rowreduce', lambda s: etl.rowreduce(s, 'f0', lambda k, rows: [k, len(list(rows))], header=['f0', 'n']), group='reductions')
E('mergeduplicates', lambda s: etl.mergeduplicates(s, 'f0'), group='reductions')
E('aggregate-len', lambda s: etl.aggregate(s, 'f0', len), group='reductions')
E('aggregate-none-len', lambda s: etl.aggregate(s, None, len), group='reductions')
E('aggregate-none-list', lambda s: etl.aggregate(s, None, list, 'f0'), group='reductions')
E('aggregate-field', lambda s: etl.aggregate(s, 'f0', list, 'f1'), group='reductions')
E('aggregate-multi', lambda s: etl.aggregate(s, 'f0', OrderedDict([('n', len), ('l', ('f1', list))])), group='reductions')
E('aggregate-multi-none', lambda s: etl.aggregate(s, None, OrderedDict([('n', len)])), group='reductions')
E('aggregate-compound', lambda s: etl.aggregate(s, ('f0', 'f1'), len), group='reductions')
E('aggregate-buffered', lambda s: etl.aggregate(s, 'f0', len, buffersize=1), group='reductions')
E('groupcountdistinctvalues', lambda s: etl.groupcountdistinctvalues(s, 'f0', 'f1'), group='reductions')
E('groupselectfirst', lambda s: etl.groupselectfirst(s, 'f0'), group='reductions')
E('groupselectlast', lambda s: etl.groupselectlast(s, 'f0'), group='reductions')
E('groupselectmin', lambda s: etl.groupselectmin(s, 'f0', 'f1'), group='reductions')
E('groupselectmax', lambda s: etl.groupselectmax(s, 'f0', 'f1'), group='reductions')
E('fold', lambda s: etl.fold(s, 'f0', lambda a, b: '%s%s' % (a, b), value='f1'), group='reductions')
E('merge1', lambda s: etl.merge(s, [['f0', 'f1', 'f2'], [2, 'm', 'n']], key='f0'), group='reductions')
# dedup
E('duplicates', lambda s: etl.duplicates(s, 'f0'), group='dedup')
E('duplicates-nokey', lambda s: etl.duplicates(s), group='dedup', ragged=False)
E('unique', lambda s: etl.unique(s, 'f0'), group='dedup')
E('unique-nokey', lambda s: etl.unique(s), group='dedup', ragged=False)
E('distinct', lambda s: etl.distinct(s), group='dedup', ragged=False)
E('distinct-key', lambda s: etl.distinct(s, 'f0'), group='dedup')
E('distinct-count', lambda s: etl.distinct(s, count='n'), group='dedup', ragged=False)
E('distinct-buffered', lambda s: etl.distinct(s, 'f0', buffersize=2), group='dedup')
E('conflicts', lambda s: etl.conflicts(s, 'f0'), group='dedup')
E('isunique', lambda s: etl.isunique(s, 'f0'), kind='scalar', group='dedup')
# validation
E('validate', lambda s: etl.validate(s, constraints=[dict(name='c', field='f0', test=int)], header=('f0', 'f1', 'f2')), group='validation')
# accessors / util.base
E('values', lambda s: etl.values(s, 'f0'), kind='items', stream=0, group='accessors')
E('values-multi', lambda s: etl.values(s, 'f0', 'f2'), kind='items', stream=0, group='accessors')
E('data', lambda s: etl.data(s), kind='items', stream=0, group='accessors')
E('dicts', lambda s: etl.dicts(s), kind='items', stream=0, group='accessors')
E('records', lambda s: etl.records(s), kind='items', stream=0, group='accessors')
E('namedtuples', lambda s: etl.namedtuples(s), kind='items', stream=0, group='accessors')
E('header', lambda s: etl.header(s), kind='scalar', group='accessors')
E('fieldnames', lambda s: etl.fieldnames(s), kind='scalar', group='accessors')
E('nrows', lambda s: etl.nrows(s), kind='scalar', group='accessors')
E('columns', lambda s: etl.columns(s), kind='scalar', group='accessors')
E('facetcolumns', lambda s: etl.facetcolumns(s, 'f0'), kind='scalar', group='accessors')
E('rowgroupby', lambda s: [(k, [tuple(r) for r in g]) for k, g in etl.rowgroupby(s, 'f0')], kind='scalar', group='accessors')
E('rowgroupby-value', lambda s: [(k, list(g)) for k, g in etl.rowgroupby(s, 'f0', 'f1')], kind='scalar', group='accessors')
E('listoflists', lambda s: etl.listoflists(s), kind='scalar', group='accessors')
E('tupleoftuples', lambda s: etl.tupleoftuples(s), kind='scalar', group='accessors')
E('wrap', lambda s: etl.wrap(s), stream=0, group='passthrough')
E('cache', lambda s: _cache(s), stream=0, group='passthrough')
E('cache-n2', lambda s: _cache(s, n=2), stream=0, group='passthrough')
E('progress', lambda s: etl.progress(s, 2, out=_Sink()), stream=0, group='passthrough')
E('log_progress', lambda s: etl.log_progress(s, 2, logger=_null_logger), stream=0, group='passthrough')
E('clock', lambda s: etl.clock(s), stream=0, group='passthrough')
def _memsink():
    from petl.io.sources import MemorySource
    return MemorySource()


E('teecsv', lambda s: etl.teecsv(s, _memsink()), stream=0, tee=True, group='passthrough')
E('teetsv', lambda s: etl.teetsv(s, _memsink(), write_header=False), stream=0, tee=True, group='passthrough')
E('teepickle', lambda s: etl.teepickle(s, _memsink()), stream=0, tee=True, group='passthrough')
E('teetext', lambda s: etl.teetext(s, _memsink(), template='{f0}|{f1}\n', prologue='P\n', epilogue='E\n'), stream=0, tee=True, group='passthrough')
E('teehtml', lambda s: etl.teehtml(s, _memsink(), caption='c'), stream=0, tee=True, group='passthrough')
E('fromdicts(dicts)', lambda s: etl.fromdicts(etl.dicts(s), header=['f0', 'f1', 'f2']), stream=0, group='io')
E('fromcolumns(columns)', lambda s: etl.fromcolumns(list(etl.columns(s).values()), header=['f0', 'f1', 'f2']), group='io', c01=True)
# lookups
E('lookup', lambda s: etl.lookup(s, 'f0'), kind='scalar', group='lookups', ragged=False)
E('lookupone', lambda s: etl.lookupone(s, 'f0'), kind='scalar', group='lookups', ragged=False)
E('dictlookup', lambda s: etl.dictlookup(s, 'f0'), kind='scalar', group='lookups')
E('dictlookupone', lambda s: etl.dictlookupone(s, 'f0'), kind='scalar', group='lookups')
E('recordlookup', lambda s: etl.recordlookup(s, 'f0'), kind='scalar', group='lookups')
E('recordlookupone', lambda s: etl.recordlookupone(s, 'f0'), kind='scalar', group='lookups')
# counting / misc / statistics
E('valuecount', lambda s: etl.valuecount(s, 'f0', 1), kind='scalar', group='counting')
E('valuecounter', lambda s: etl.valuecounter(s, 'f0'), kind='scalar', group='counting')
E('valuecounts', lambda s: etl.valuecounts(s, 'f0'), group='counting')
E('valuecounts-multi', lambda s: etl.valuecounts(s, 'f0', 'f1'), group='counting')
E('typecounter', lambda s: etl.typecounter(s, 'f0'), kind='scalar', group='counting')
E('typecounts', lambda s: etl.typecounts(s, 'f0'), group='counting')
E('parsecounter', lambda s: etl.parsecounter(s, 'f2'), kind='scalar', group='counting')
E('parsecounts', lambda s: etl.parsecounts(s, 'f2'), group='counting')
E('stringpatterncounter', lambda s: etl.stringpatterncounter(s, 'f1'), kind='scalar', group='counting')
E('stringpatterns', lambda s: etl.stringpatterns(s, 'f1'), group='counting')
E('rowlengths', lambda s: etl.rowlengths(s), group='counting')
E('typeset', lambda s: etl.typeset(s, 'f0'), kind='scalar', group='misc')
E('limits', lambda s: etl.limits(s, 'f0'), kind='scalar', group='misc')
E('stats', lambda s: etl.stats(s, 'f0'), kind='scalar', group='misc')
E('diffheaders', lambda s: etl.diffheaders(s, [['f0', 'zz']]), kind='scalar', group='misc')
E('diffvalues', lambda s: etl.diffvalues(s, [['f0'], [1], [99]], 'f0'), kind='scalar', group='misc')
E('look', lambda s: repr(etl.look(s)), kind='scalar', group='vis')
E('lookall', lambda s: repr(etl.lookall(s)), kind='scalar', group='vis')
E('lookstr', lambda s: repr(etl.lookstr(s)), kind='scalar', group='vis')
E('see', lambda s: repr(etl.see(s)), kind='scalar', group='vis')
E('look-simple', lambda s: repr(etl.look(s, style='simple', limit=2)), kind='scalar', group='vis')
E('look-minimal', lambda s: repr(etl.look(s, style='minimal', index_header=True)), kind='scalar', group='vis')
# unjoin
E('unjoin', lambda s: etl.unjoin(s, 'f2', key='f1'), kind='multi', group='joins')
E('unjoin-nokey', lambda s: etl.unjoin(s, 'f2'), kind='multi', group='joins', ragged=False)
E('unjoin-autoincrement', lambda s: etl.unjoin(s, 'f2', autoincrement=(10, 5)), kind='multi', group='joins', ragged=False)

# ---------------------------------------------------------------------------
# binary: joins (second input has fields f0, g1)
for _n in ('join', 'leftjoin', 'rightjoin', 'outerjoin', 'antijoin', 'lookupjoin'):
    E(_n, (lambda f: lambda a, b: f(a, b, key='f0'))(getattr(etl, _n)), arity=2, group='joins')
E('join-natural', lambda a, b: etl.join(a, b), arity=2, hdr=True, group='joins')
E('join-buffered', lambda a, b: etl.join(a, b, key='f0', buffersize=1), arity=2, group='joins')
E('join-lrkey', lambda a, b: etl.join(a, b, lkey='f0', rkey='f0', lprefix='l_', rprefix='r_'), arity=2, group='joins')
E('outerjoin-missing', lambda a, b: etl.outerjoin(a, b, key='f0', missing='M'), arity=2, group='joins')
E('crossjoin', lambda a, b: etl.crossjoin(a, b), arity=2, group='joins')
E('crossjoin-prefix', lambda a, b: etl.crossjoin(a, b, prefix=True), arity=2, group='joins')
E('hashjoin', lambda a, b: etl.hashjoin(a, b, key='f0'), arity=2, stream=0, group='hashjoins')
E('hashjoin-nocache', lambda a, b: etl.hashjoin(a, b, key='f0', cache=False), arity=2, stream=0, group='hashjoins')
E('hashleftjoin', lambda a, b: etl.hashleftjoin(a, b, key='f0'), arity=2, stream=0, group='hashjoins')
E('hashrightjoin', lambda a, b: etl.hashrightjoin(a, b, key='f0'), arity=2, stream=1, group='hashjoins')
E('hashantijoin', lambda a, b: etl.hashantijoin(a, b, key='f0'), arity=2, stream=0, group='hashjoins', ragged=False)
E('hashlookupjoin', lambda a, b: etl.hashlookupjoin(a, b, key='f0'), arity=2, stream=0, group='hashjoins')
E('hashjoin-natural', lambda a, b: etl.hashjoin(a, b), arity=2, stream=0, hdr=True, group='hashjoins')
E('annex', lambda a, b: etl.annex(a, b), arity=2, stream=0, group='basics')
E('cat2', lambda a, b: etl.cat(a, b), arity=2, stream=0, group='basics')
E('stack2', lambda a, b: etl.stack(a, b), arity=2, stream=0, group='basics')
E('mergesort', lambda a, b: etl.mergesort(a, b, key='f0'), arity=2, group='sort')
E('mergesort-nokey', lambda a, b: etl.mergesort(a, b), arity=2, second='same', group='sort')
E('merge', lambda a, b: etl.merge(a, b, key='f0'), arity=2, group='reductions')
# binary: set operations (second input has the same fields)
E('complement', lambda a, b: etl.complement(a, b), arity=2, second='same', group='setops', ragged=False)
E('complement-strict', lambda a, b: etl.complement(a, b, strict=True), arity=2, second='same', group='setops', ragged=False)
E('intersection', lambda a, b: etl.intersection(a, b), arity=2, second='same', group='setops', ragged=False)
E('diff', lambda a, b: etl.diff(a, b), arity=2, second='same', kind='multi', group='setops', ragged=False)
E('recordcomplement', lambda a, b: etl.recordcomplement(a, b), arity=2, second='same', hdr=True, group='setops', ragged=False)
E('recorddiff', lambda a, b: etl.recorddiff(a, b), arity=2, second='same', hdr=True, kind='multi', group='setops', ragged=False)
E('hashcomplement', lambda a, b: etl.hashcomplement(a, b), arity=2, second='same', stream=0, group='setops', ragged=False)
E('hashintersection', lambda a, b: etl.hashintersection(a, b), arity=2, second='same', stream=0, group='setops', ragged=False)

# ---------------------------------------------------------------------------
# presorted=True forms: the operator reads its inputs directly instead of through an internal sort() (which would hand it
# fresh tuples), so the input's own header and row objects reach the operator's code.  The standard inputs are not sorted by
# f0; what such a call returns is then unspecified but still deterministic, which is all C01/C02/C03/C20 rely on.
for _n in ('join', 'leftjoin', 'rightjoin', 'outerjoin', 'antijoin', 'lookupjoin'):
    E(_n + '-presorted', (lambda f: lambda a, b: f(a, b, key='f0', presorted=True))(getattr(etl, _n)), arity=2, group='joins', ragged=False)
for _n in ('complement', 'intersection'):
    E(_n + '-presorted', (lambda f: lambda a, b: f(a, b, presorted=True))(getattr(etl, _n)), arity=2, second='same',
      group='setops', ragged=False)
E('diff-presorted', lambda a, b: etl.diff(a, b, presorted=True), arity=2, second='same', kind='multi', group='setops', ragged=False)
E('mergesort-presorted', lambda a, b: etl.mergesort(a, b, key='f0', presorted=True), arity=2, group='sort')
E('merge-presorted', lambda a, b: etl.merge(a, b, key='f0', presorted=True), arity=2, group='reductions', ragged=False)
for _n in ('duplicates', 'unique', 'conflicts', 'mergeduplicates', 'groupselectfirst', 'groupselectlast'):
    E(_n + '-presorted', (lambda f: lambda s: f(s, 'f0', presorted=True))(getattr(etl, _n)),
      group='dedup' if _n in ('duplicates', 'unique', 'conflicts') else 'reductions', ragged=False)
E('distinct-presorted', lambda s: etl.distinct(s, presorted=True), group='dedup', ragged=False)
E('distinct-key-count-presorted', lambda s: etl.distinct(s, 'f0', count='n', presorted=True), group='dedup', ragged=False)
E('distinct-count-presorted', lambda s: etl.distinct(s, count='n', presorted=True), group='dedup', ragged=False)
E('groupselectmin-presorted', lambda s: etl.groupselectmin(s, 'f0', 'f1', presorted=True), group='reductions', ragged=False)
E('groupselectmax-presorted', lambda s: etl.groupselectmax(s, 'f0', 'f1', presorted=True), group='reductions', ragged=False)
E('aggregate-len-presorted', lambda s: etl.aggregate(s, 'f0', len, presorted=True), group='reductions', ragged=False)
E('aggregate-multi-presorted', lambda s: etl.aggregate(s, 'f0', OrderedDict([('n', len), ('l', ('f1', list))]), presorted=True),
  group='reductions', ragged=False)
E('rowreduce-presorted', lambda s: etl.rowreduce(s, 'f0', lambda k, rows: [k, len(list(rows))], header=['f0', 'n'], presorted=True),
  group='reductions', ragged=False)
E('fold-presorted', lambda s: etl.fold(s, 'f0', lambda a, b: '%s%s' % (a, b), value='f1', presorted=True), group='reductions', ragged=False)
E('rowgroupmap-presorted', lambda s: etl.rowgroupmap(s, 'f0', lambda k, rows: [(k, len(list(rows)))], header=['f0', 'n'], presorted=True),
  group='maps', ragged=False)
E('pivot-presorted', lambda s: etl.pivot(s, 'f0', 'f1', 'f2', list, presorted=True), group='reshape', hdrdep=True, ragged=False)
E('unjoin-presorted', lambda s: etl.unjoin(s, 'f2', key='f1', presorted=True), kind='multi', group='joins', ragged=False)

# the key at different positions in the two inputs (second input has fields g1, f0)
for _n, _st in (('join', None), ('leftjoin', None), ('rightjoin', None), ('outerjoin', None), ('antijoin', None), ('lookupjoin', None),
                ('hashjoin', 0), ('hashleftjoin', 0), ('hashrightjoin', 1), ('hashantijoin', 0), ('hashlookupjoin', 0)):
    E(_n + '-keypos', (lambda f: lambda a, b: f(a, b, key='f0'))(getattr(etl, _n)), arity=2, second='joinrev', stream=_st,
      group='hashjoins' if _n.startswith('hash') else 'joins', ragged=(_n != 'hashantijoin'))
E('hashrightjoin-lrkey-missing', lambda a, b: etl.hashrightjoin(a, b, lkey='f0', rkey='f0', missing='M'), arity=2, second='joinrev', stream=1,
  group='hashjoins')
for _n, _st in (('leftjoin', None), ('rightjoin', None), ('lookupjoin', None), ('hashleftjoin', 0), ('hashrightjoin', 1), ('hashlookupjoin', 0)):
    E(_n + '-missing', (lambda f: lambda a, b: f(a, b, key='f0', missing='M'))(getattr(etl, _n)), arity=2, stream=_st,
      group='hashjoins' if _n.startswith('hash') else 'joins')
E('addcolumn-missing', lambda s: etl.addcolumn(s, 'q', [1, 2, 3], missing='NA'), stream=0, group='basics', ragged=False)
E('addcolumn-index-missing', lambda s: etl.addcolumn(s, 'q', [1, 2, 3], index=1, missing='-'), stream=0, group='basics', ragged=False)
E('annex1-missing', lambda s: etl.annex(s, [['q'], [1]], missing='NA'), stream=0, group='basics')
E('selectop', lambda s: etl.selectop(s, 'f0', 1, lambda a, b: a != b), stream=0, group='selects')
E('listoftuples', lambda s: etl.listoftuples(s), kind='scalar', group='accessors')
E('tupleoflists', lambda s: etl.tupleoflists(s), kind='scalar', group='accessors')
E('lookallstr', lambda s: repr(etl.lookallstr(s)), kind='scalar', group='vis')
E('lookall-minimal', lambda s: repr(etl.lookall(s, style='minimal')), kind='scalar', group='vis')
E('lookstr-simple', lambda s: repr(etl.lookstr(s, style='simple')), kind='scalar', group='vis')
E('see-index-header', lambda s: repr(etl.see(s, index_header=True)), kind='scalar', group='vis')
E('repr(wrap)', lambda s: repr(etl.wrap(s)), kind='scalar', group='vis')
E('str(wrap)', lambda s: str(etl.wrap(s)), kind='scalar', group='vis')
E('_repr_html_', lambda s: etl.wrap(s)._repr_html_(), kind='scalar', group='vis')


class MethodForm(object):
    """stands in for the `petl` module inside the builders: every function that also exists as a Table method is called in its
    method form on a wrapped first argument (etl.wrap(t).cut(...) instead of etl.cut(t, ...)); everything else is passed through"""

    def __getattr__(self, name):
        import inspect
        import petl
        from petl.util.base import Table
        f = getattr(petl, name)
        target = getattr(f, '__wrapped__', f)
        if inspect.isfunction(target) and hasattr(Table, name):
            def call(t, *a, **k):
                return getattr(petl.wrap(t), name)(*a, **k)
            return call
        return f


class method_form(object):
    """context manager: the catalogue builders use the method form while it is active"""

    def __enter__(self):
        global etl
        self.saved = etl
        etl = MethodForm()

    def __exit__(self, *a):
        global etl
        etl = self.saved


def views():
    return [e for e in ENTRIES.values() if e.kind == 'view']


def by_name(name):
    return ENTRIES[name]


# ---------------------------------------------------------------------------
# standard small inputs

def table_a(n=4, ragged=False):
    rows = [[(i * 2) % 3 + 1 if i else 2, 'v%d' % (i % 7), str(i % 3)] for i in range(n)]
    t = [['f0', 'f1', 'f2']] + rows
    if ragged and n >= 2:
        t[2] = t[2][:1]
        if n >= 3:
            t[3] = t[3] + ['extra']
    return t


def table_join(n=3):
    # (from the sixth row on: several keys beyond the largest key of table_a, one of them twice, and one below its smallest)
    return [['f0', 'g1']] + [[[1, 3, 3, 2, 5, 7, 8, 7, 0, 5][i % 10], 'g%d' % i] for i in range(n)]


def table_same(n=3):
    a = table_a(4)
    rows = [a[1 + (i % 4)] if i % 2 == 0 else [9, 'q%d' % i, '9'] for i in range(n)]
    return [['f0', 'f1', 'f2']] + [list(r) for r in rows]


def table_joinrev(n=3):
    # the join schema with the key *not* in the position it has on the left
    return [[r[1], r[0]] for r in table_join(n)]


def second_for(entry, n=3):
    if entry.second == 'joinrev':
        return table_joinrev(n)
    return table_join(n) if entry.second == 'join' else table_same(n)
