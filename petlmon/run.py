"""CLI / runner: ./check <id> quick|thorough | <id> --replay <file> | --selfcheck

One engine for all checks.  A check module (petlmon/checks/cNN.py) provides

    ID, LEVEL, RULE, ASSUMPTIONS, REQUIRED (list of observation names)
    cases(ctx)          -> iterator of plain-data case dicts (deterministic)
    judge(case, ctx)    -> None | violation dict | list of violation dicts

The runner shards the case stream over processes, runs every case under a
watchdog, turns escapes from petl code into violations, classifies violations
against known_findings.json, aggregates what the monitors observed and writes
evidence/<id>.json.  Verdicts are three-valued (DESIGN 1.1).
"""
from __future__ import annotations

import os
import sys

VERIF = os.path.dirname(os.path.dirname(os.path.abspath(__file__)))
ROOT = os.path.realpath(os.environ.get('PETL_VERIF_REPO', '/repo'))
if ROOT not in sys.path:
    sys.path.insert(0, ROOT)
if VERIF not in sys.path:
    sys.path.insert(0, VERIF)

import argparse  # noqa: E402
import datetime  # noqa: E402
import gc  # noqa: E402
import hashlib  # noqa: E402
import importlib  # noqa: E402
import json  # noqa: E402
import random  # noqa: E402
import shutil  # noqa: E402
import signal  # noqa: E402
import subprocess  # noqa: E402
import tempfile  # noqa: E402
import time  # noqa: E402
import traceback  # noqa: E402
import warnings  # noqa: E402
from collections import Counter  # noqa: E402
from decimal import Decimal  # noqa: E402

from petlmon import util  # noqa: E402

PROPS = ['C%02d' % i for i in range(1, 21)]
NPROC = {'quick': int(os.environ.get('VERIF_QUICK_PROCS', '8')),
         'thorough': int(os.environ.get('VERIF_PROCS', '16'))}
CASE_WATCHDOG_S = 60
SHARD_TIMEOUT_S = {'quick': 3600, 'thorough': 4 * 3600}
MAX_STORED_VIOLATIONS = 25
ONLY = os.environ.get('VERIF_ONLY')   # debugging aid: run only the cases whose repr contains this text


class Watchdog(Exception):
    pass


class Inconclusive(Exception):
    """raised by a check when its own machinery cannot decide a case"""


class HarnessError(Exception):
    pass


def _alarm(signum, frame):
    raise Watchdog()


# ---------------------------------------------------------------------------

class Ctx(object):
    def __init__(self, prop, tier, seed, shard=0, nshards=1, scratch=None):
        self.prop = prop
        self.tier = tier
        self.seed = seed
        self.shard = shard
        self.nshards = nshards
        self.scratch = scratch
        self.obs = Counter()          # observation tallies (monitor events)
        self.ops = Counter()          # per operator / mode case counts
        self.nontrivial = set()       # fingerprints of distinct non-trivial cases
        self.samples = []
        self.root = ROOT
        self._cur_nontrivial = False

    @property
    def quick(self):
        return self.tier == 'quick'

    def pick(self, quick, thorough):
        return quick if self.tier == 'quick' else thorough

    def rng(self, *names):
        h = hashlib.sha256(repr((self.seed, self.prop) + tuple(names)).encode()).digest()
        return random.Random(int.from_bytes(h[:8], 'big'))

    def seen(self, name, n=1):
        self.obs[name] += n

    def op(self, name, n=1):
        self.ops[name] += n

    def mark_nontrivial(self):
        self._cur_nontrivial = True


# ---------------------------------------------------------------------------
# coverage of the petl tree (evidence that the anchored code was executed)

class LineCoverage(object):
    def __init__(self, root):
        self.root = os.path.join(root, 'petl') + os.sep
        self.hits = {}
        self.on = False

    def start(self):
        mon = getattr(sys, 'monitoring', None)
        if mon is None:
            return
        try:
            mon.use_tool_id(mon.COVERAGE_ID, 'petlmon')
        except ValueError:
            return
        root = self.root
        hits = self.hits

        def line(code, lineno):
            fn = code.co_filename
            if fn.startswith(root) and '/test/' not in fn:
                hits.setdefault(fn[len(root):], set()).add(lineno)
            return mon.DISABLE
        mon.register_callback(mon.COVERAGE_ID, mon.events.LINE, line)
        mon.set_events(mon.COVERAGE_ID, mon.events.LINE)
        self.on = True

    def stop(self):
        if self.on:
            mon = sys.monitoring
            mon.set_events(mon.COVERAGE_ID, 0)
            mon.free_tool_id(mon.COVERAGE_ID)
            self.on = False

    def dump(self):
        return {k: sorted(v) for k, v in self.hits.items()}


def executable_lines(path):
    try:
        src = open(path, encoding='utf-8').read()
        code = compile(src, path, 'exec')
    except Exception:
        return set()
    # lines of function bodies only: module-level statements (imports, defs, assignments) ran at import time, before the
    # monitor was switched on, and class bodies likewise
    lines = set()
    stack = [(code, 0)]
    while stack:
        co, depth = stack.pop()
        is_body = depth > 0 and not (co.co_flags & 0x20 == 0 and co.co_name == co.co_qualname and depth == 1 and co.co_name[:1].isupper())
        if is_body:
            first = True
            for _, _, ln in co.co_lines():
                if ln is not None and ln > 0 and ln != co.co_firstlineno:
                    lines.add(ln)
        for c in co.co_consts:
            if hasattr(c, 'co_lines'):
                stack.append((c, depth + 1))
    return lines


# ---------------------------------------------------------------------------

REPLAY_NS = {'Decimal': Decimal, 'datetime': datetime, 'nan': float('nan'), 'inf': float('inf')}


def case_from_repr(text):
    return eval(text, dict(REPLAY_NS))  # noqa: S307 - our own replay files


def load_check(prop):
    return importlib.import_module('petlmon.checks.%s' % prop.lower())


def verify_tree():
    import petl
    pf = os.path.realpath(petl.__file__)
    if not pf.startswith(ROOT + os.sep):
        raise HarnessError('petl imported from %s, not from the tree %s' % (pf, ROOT))
    return pf


def petl_frames(exc):
    out = []
    innermost_harness = False
    tb = exc.__traceback__
    petl_root = os.path.join(ROOT, 'petl') + os.sep
    last = None
    while tb is not None:
        fn = tb.tb_frame.f_code.co_filename
        if fn.startswith(petl_root):
            out.append('%s:%d:%s' % (fn[len(petl_root):], tb.tb_lineno, tb.tb_frame.f_code.co_name))
        last = fn
        tb = tb.tb_next
    if last is not None and os.path.realpath(last).startswith(VERIF + os.sep):
        innermost_harness = True
    return out, innermost_harness


def run_one(mod, case, ctx):
    """-> list of violation dicts; raises Watchdog / Inconclusive / HarnessError"""
    import petl
    from petl import config as pcfg
    saved_cfg = {k: getattr(pcfg, k) for k in dir(pcfg) if not k.startswith('_') and k not in ('text_type', 'division', 'print_function', 'absolute_import')}
    saved_tmp = tempfile.tempdir
    ctx._cur_nontrivial = False
    from petlmon import util as _util
    twice0 = _util.TWICE[0]
    # one case in four makes all its calls to petl's functions in keyword form (every argument after the first bound by name)
    from petlmon import probes as _probes
    h_ = int(_util.fp(case)[:2], 16) % 8
    kwform = 'kw' if h_ in (0, 4) else ('pos' if h_ == 2 else False)
    _probes.KEYWORD_FORM[0] = kwform
    kw0, pos0 = _probes.KEYWORD_FORM[1], _probes.KEYWORD_FORM[2]
    signal.alarm(CASE_WATCHDOG_S)
    try:
        with warnings.catch_warnings():
            warnings.simplefilter('ignore')
            res = mod.judge(case, ctx)
    except (Watchdog, Inconclusive, HarnessError):
        raise
    except Exception as e:  # noqa: classify below
        frames, harness_inner = petl_frames(e)
        if frames and not harness_inner:
            res = {'kind': 'exception', 'detail': '%s: %s' % (type(e).__name__, e), 'where': frames[-5:]}
        else:
            raise HarnessError(''.join(traceback.format_exception(type(e), e, e.__traceback__))[-3000:])
        del e
    finally:
        signal.alarm(0)
        for k, v in saved_cfg.items():
            setattr(pcfg, k, v)
        tempfile.tempdir = saved_tmp
        if _util.TWICE[0] != twice0:
            ctx.seen('views-read-twice', _util.TWICE[0] - twice0)
        _probes.KEYWORD_FORM[0] = False
        if _probes.KEYWORD_FORM[1] != kw0:
            ctx.seen('petl-calls-made-in-keyword-form', _probes.KEYWORD_FORM[1] - kw0)
        if _probes.KEYWORD_FORM[2] != pos0:
            ctx.seen('petl-calls-made-in-positional-form', _probes.KEYWORD_FORM[2] - pos0)
    if res is None:
        return []
    if isinstance(res, dict):
        res = [res]
    res = list(res)
    if kwform:
        for r_ in res:
            if isinstance(r_, dict):
                r_.setdefault('call-form', 'arguments after the first bound by keyword' if kwform == 'kw' else 'keyword arguments written positionally in the documented order')
    return res


def run_shard(prop, tier, seed, shard, nshards, only_index=None):
    t0 = time.time()
    verify_tree()
    # the argument ledger goes in before the check module (and the catalogue) is imported: references they bind at import time
    # (getattr(petl, name) in a loop) must be the counted ones
    from petlmon import probes as _probes
    ledger = _probes.ArgLedger()
    ledger.install()
    mod = load_check(prop)
    from petlmon import findings
    scratch = tempfile.mkdtemp(prefix='petlmon-%s-' % prop)
    ctx = Ctx(prop, tier, seed, shard, nshards, scratch)
    cov = LineCoverage(ROOT)
    signal.signal(signal.SIGALRM, _alarm)
    cov.start()
    out = {'evaluations': 0, 'violations': [], 'known': {}, 'inconclusive': [], 'nviol': 0, 'vsig': {}}
    nontrivial_samples = []
    try:
        if hasattr(mod, 'setup'):
            mod.setup(ctx)
        for i, case in enumerate(mod.cases(ctx)):
            if i % nshards != shard:
                continue
            if only_index is not None and i != only_index:
                continue
            if ONLY and ONLY not in repr(case):
                continue
            out['evaluations'] += 1
            try:
                viols = run_one(mod, case, ctx)
            except Watchdog:
                out['inconclusive'].append({'case': util.short(case, 600), 'reason': 'watchdog (%ds)' % CASE_WATCHDOG_S})
                continue
            except Inconclusive as e:
                out['inconclusive'].append({'case': util.short(case, 600), 'reason': 'inconclusive: %s' % e})
                continue
            except HarnessError as e:
                out['inconclusive'].append({'case': util.short(case, 600), 'reason': 'harness error: %s' % e})
                continue
            if ctx._cur_nontrivial:
                f = util.fp(case)
                if f not in ctx.nontrivial:
                    ctx.nontrivial.add(f)
                    if len(nontrivial_samples) < 3:
                        nontrivial_samples.append(case)
            if len(ctx.samples) < 2:
                ctx.samples.append(case)
            for v in viols:
                fid = findings.classify(prop, case, v)
                if fid is not None:
                    k = out['known'].setdefault(fid, {'count': 0, 'example': None})
                    k['count'] += 1
                    if k['example'] is None:
                        k['example'] = {'case': repr(case), 'violation': jsonable(v)}
                else:
                    out['nviol'] += 1
                    sig = '%s|%s|%s' % (case.get('op') or case.get('form') or case.get('sel') or case.get('fn') or case.get('view') or case.get('kind'), v.get('fn') or v.get('kind'),
                                        (v.get('detail') or v.get('mode') or '')[:60] + ((' src=%s enc=%s app=%s' % (v.get('source'), v.get('encoding'), v.get('appends'))) if 'source' in v else ''))
                    out['vsig'][sig] = out['vsig'].get(sig, 0) + 1
                    if len(out['violations']) < MAX_STORED_VIOLATIONS:
                        out['violations'].append({'index': i, 'case': repr(case), 'violation': jsonable(v)})
        if hasattr(mod, 'teardown'):
            mod.teardown(ctx)
    finally:
        cov.stop()
        ledger.remove()
        shutil.rmtree(scratch, ignore_errors=True)
    out['argledger'] = ledger.dump()
    out['obs'] = dict(ctx.obs)
    out['ops'] = dict(ctx.ops)
    out['nontrivial'] = sorted(ctx.nontrivial)
    out['samples'] = [jsonable(c) for c in (ctx.samples + nontrivial_samples)]
    out['coverage'] = cov.dump()
    out['wall_s'] = time.time() - t0
    return out


def jsonable(o, depth=0):
    if depth > 12:
        return repr(o)
    if o is None or isinstance(o, (bool, int, str)):
        return o
    if isinstance(o, float):
        return o if o == o and abs(o) != float('inf') else repr(o)
    if isinstance(o, dict):
        return {(k if isinstance(k, str) else repr(k)): jsonable(v, depth + 1) for k, v in o.items()}
    if hasattr(o, 'raw') and isinstance(o, tuple):
        return repr(o.raw)
    if isinstance(o, (list, tuple)):
        if isinstance(o, tuple) and depth > 0:
            return repr(o)
        return [jsonable(v, depth + 1) for v in o]
    return repr(o)


# ---------------------------------------------------------------------------

def _ranges(nums):
    out, i = [], 0
    while i < len(nums):
        j = i
        while j + 1 < len(nums) and nums[j + 1] - nums[j] <= 2:
            j += 1
        out.append(str(nums[i]) if i == j else '%d-%d' % (nums[i], nums[j]))
        i = j + 1
    return ' '.join(out)


def anchors_of(prop):
    for line in open(os.path.join(VERIF, 'properties.jsonl')):
        p = json.loads(line)
        if p['id'] == prop:
            return [f for f in p['anchors']['files'] if f.endswith('.py')]
    return []


def main_check(prop, tier, seed):
    t0 = time.time()
    mod = load_check(prop)
    n = NPROC[tier]
    if getattr(mod, 'SINGLE_PROCESS', False):
        n = 1
    tmp = tempfile.mkdtemp(prefix='petlmon-run-')
    results = []
    failed_shards = []
    try:
        if n == 1:
            results.append(run_shard(prop, tier, seed, 0, 1))
        else:
            procs = []
            env = dict(os.environ)
            env['PYTHONHASHSEED'] = '0'
            for s in range(n):
                outp = os.path.join(tmp, 'shard%d.json' % s)
                cmd = [sys.executable, '-m', 'petlmon.run', prop, tier, '--shard', '%d/%d' % (s, n),
                       '--out', outp, '--seed', str(seed)]
                logf = open(os.path.join(tmp, 'shard%d.log' % s), 'wb')
                procs.append((s, outp, logf, subprocess.Popen(cmd, cwd=VERIF, env=env, stdout=logf, stderr=subprocess.STDOUT)))
            deadline = time.time() + SHARD_TIMEOUT_S[tier]
            for s, outp, logf, p in procs:
                try:
                    p.wait(timeout=max(1, deadline - time.time()))
                except subprocess.TimeoutExpired:
                    p.kill()
                    p.wait()
                    failed_shards.append((s, 'timeout'))
                    continue
                finally:
                    logf.close()
                if p.returncode != 0 or not os.path.exists(outp):
                    log = open(os.path.join(tmp, 'shard%d.log' % s), 'rb').read()[-2000:].decode('utf-8', 'replace')
                    failed_shards.append((s, 'exit %s: %s' % (p.returncode, log)))
                    continue
                results.append(json.load(open(outp)))
    finally:
        shutil.rmtree(tmp, ignore_errors=True)

    # ---- aggregate
    evaluations = sum(r['evaluations'] for r in results)
    obs = Counter()
    ops = Counter()
    nontriv = set()
    violations = []
    nviol = 0
    known = {}
    inconclusive = []
    cov = {}
    samples = []
    vsig = Counter()
    led_calls, led_kw, led_sh = Counter(), {}, {}
    for r in results:
        led_calls.update(r.get('argledger', {}).get('calls', {}))
        for fn_, d_ in r.get('argledger', {}).get('kwargs', {}).items():
            led_kw.setdefault(fn_, Counter()).update(d_)
        for fn_, d_ in r.get('argledger', {}).get('shapes', {}).items():
            for p_, v_ in d_.items():
                led_sh.setdefault(fn_, {}).setdefault(p_, set()).update(v_)
        vsig.update(r.get('vsig', {}))
        obs.update(r['obs'])
        ops.update(r['ops'])
        nontriv.update(r['nontrivial'])
        violations.extend(r['violations'])
        nviol += r['nviol']
        inconclusive.extend(r['inconclusive'])
        for fid, k in r['known'].items():
            kk = known.setdefault(fid, {'count': 0, 'example': k['example']})
            kk['count'] += k['count']
        for f, lines in r['coverage'].items():
            cov.setdefault(f, set()).update(lines)
        if len(samples) < 5:
            samples.extend(r['samples'][:5 - len(samples)])
    for s, why in failed_shards:
        inconclusive.append({'case': 'shard %d' % s, 'reason': why})

    required = list(getattr(mod, 'REQUIRED', []))
    if hasattr(mod, 'required'):
        required = list(mod.required(tier))
    missing = [r for r in required if obs.get(r, 0) == 0 and ops.get(r, 0) == 0]

    anchor_cov = {}
    for f in anchors_of(prop):
        rel = f[len('petl/'):] if f.startswith('petl/') else f
        total = executable_lines(os.path.join(ROOT, f))
        if not total:
            continue
        hit = cov.get(rel, set()) & total
        anchor_cov[f] = {'hit': len(hit), 'total': len(total), 'missed': _ranges(sorted(total - hit))}

    from petlmon import findings
    verdict = 'held'
    if nviol:
        verdict = 'violated'
    elif inconclusive or missing or evaluations == 0:
        verdict = 'inconclusive'

    # ---- replay files
    replay_paths = []
    if violations:
        os.makedirs(os.path.join(VERIF, 'replay'), exist_ok=True)
        for v in violations[:10]:
            name = '%s-%s.json' % (prop, util.fp(v['case']))
            path = os.path.join('replay', name)
            with open(os.path.join(VERIF, path), 'w') as f:
                json.dump({'property': prop, 'tier': tier, 'seed': seed, 'case': v['case'],
                           'violation': v['violation']}, f, indent=1)
            replay_paths.append((path, v))

    level = mod.LEVEL
    coverage = {
        'evaluations': evaluations,
        'distinct_nontrivial': len(nontriv),
        'rule': mod.RULE,
        'samples': samples[:5] if samples else [],
        'exhaustive': bool(getattr(mod, 'EXHAUSTIVE', {}).get(tier, False)) if isinstance(getattr(mod, 'EXHAUSTIVE', None), dict) else False,
        'verdict': verdict,
        'observations': dict(sorted(obs.items())),
        'cases_by_operator_or_mode': dict(sorted(ops.items())),
        'required_observations': required,
        'required_missing': missing,
        'anchor_line_coverage': anchor_cov,
        # calls the check itself made to public petl functions, and the keyword arguments it passed (probes.ArgLedger)
        'petl_calls_by_function': {fn_: {'calls': n_, 'keyword_arguments': dict(sorted(led_kw.get(fn_, {}).items())),
                                         'argument_forms': {p_: sorted(v_) for p_, v_ in sorted(led_sh.get(fn_, {}).items())}}
                                   for fn_, n_ in sorted(led_calls.items())},
        'known_findings_hit': {fid: k['count'] for fid, k in known.items()},
        'inconclusive_cases': len(inconclusive),
        'inconclusive_examples': inconclusive[:3],
        'processes': n,
        'tree': ROOT,
    }
    if hasattr(mod, 'EXPLANATION'):
        coverage['explanation'] = mod.EXPLANATION
    ev = {
        'property_id': prop, 'tier': tier, 'seed': seed, 'level': level,
        'coverage': coverage,
        'assumptions': list(getattr(mod, 'ASSUMPTIONS', [])),
        'wall_s': round(time.time() - t0, 2),
        'violations': nviol,
    }
    evdir = os.environ.get('PETL_VERIF_EVIDENCE_DIR') or os.path.join(VERIF, 'evidence')
    os.makedirs(evdir, exist_ok=True)
    with open(os.path.join(evdir, '%s.json' % prop), 'w') as f:
        json.dump(ev, f, indent=1, sort_keys=False)
        f.write('\n')

    # ---- report
    print('%s %s seed=%d: %d cases, %d distinct non-trivial, %d violation(s), %d known-finding hit(s), %d inconclusive, %.1fs'
          % (prop, tier, seed, evaluations, len(nontriv), nviol, sum(k['count'] for k in known.values()), len(inconclusive), time.time() - t0))
    keyobs = ', '.join('%s=%d' % kv for kv in sorted(obs.items())[:40])
    print('observed: ' + keyobs)
    for fid, k in sorted(known.items()):
        print('KNOWN-FINDING: property=%s %s (%d case(s) this run)' % (prop, findings.describe(fid), k['count']))
    if nviol:
        print('violation signatures (operator|kind|detail: count):')
        for sig, cnt in vsig.most_common(40):
            print('   %6d  %s' % (cnt, sig))
        for path, v in replay_paths[:5]:
            print('VIOLATION property=%s replay=%s' % (prop, path))
            print('   ' + util.short(v['violation'], 700))
        return 1
    if verdict == 'inconclusive':
        why = []
        if missing:
            why.append('required observations never made: %s' % ','.join(missing))
        if inconclusive:
            why.append('%d undecided case(s), first: %s' % (len(inconclusive), util.short(inconclusive[0], 1500)))
        if evaluations == 0:
            why.append('no case was evaluated')
        print('INCONCLUSIVE property=%s reason=%s' % (prop, '; '.join(why)))
        return 2
    return 0


def main_replay(prop, path):
    verify_tree()
    mod = load_check(prop)
    from petlmon import findings
    rec = json.load(open(path if os.path.isabs(path) else os.path.join(VERIF, path)))
    case = case_from_repr(rec['case'])
    scratch = tempfile.mkdtemp(prefix='petlmon-%s-' % prop)
    ctx = Ctx(prop, rec.get('tier', 'quick'), rec.get('seed', 0), 0, 1, scratch)
    signal.signal(signal.SIGALRM, _alarm)
    try:
        if hasattr(mod, 'setup'):
            mod.setup(ctx)
        viols = run_one(mod, case, ctx)
    finally:
        shutil.rmtree(scratch, ignore_errors=True)
    print('case: ' + util.short(case, 2000))
    rc = 0
    for v in viols:
        fid = findings.classify(prop, case, v)
        if fid:
            print('KNOWN-FINDING: property=%s %s' % (prop, findings.describe(fid)))
        else:
            print('VIOLATION property=%s replay=%s' % (prop, path))
            rc = 1
        print('   ' + util.short(v, 3000))
    if not viols:
        print('held: the recorded case no longer violates %s' % prop)
    return rc


def main_selfcheck():
    pf = verify_tree()
    print('petl imported from', pf)
    from petlmon import probes
    probes.selftest()
    for p in PROPS:
        try:
            load_check(p)
        except ModuleNotFoundError:
            continue
    print('selfcheck ok')
    return 0


def main(argv=None):
    ap = argparse.ArgumentParser()
    ap.add_argument('prop')
    ap.add_argument('tier', nargs='?')
    ap.add_argument('--replay')
    ap.add_argument('--shard')
    ap.add_argument('--out')
    ap.add_argument('--seed', type=int, default=None)
    ap.add_argument('--index', type=int, default=None)
    a = ap.parse_args(argv)
    if a.prop == '--selfcheck' or a.prop == 'selfcheck':
        return main_selfcheck()
    seed = a.seed if a.seed is not None else int(os.environ.get('VERIF_SEED', '0') or 0)
    if a.replay:
        return main_replay(a.prop, a.replay)
    tier = a.tier or os.environ.get('VERIF_TIER') or 'quick'
    if tier not in ('quick', 'thorough'):
        print('unknown tier', tier)
        return 2
    if a.shard:
        s, n = a.shard.split('/')
        res = run_shard(a.prop, tier, seed, int(s), int(n), a.index)
        if a.out:
            with open(a.out, 'w') as f:
                json.dump(res, f)
        else:
            res.pop('coverage', None)
            res.pop('nontrivial', None)
            print(json.dumps(res, indent=1)[:20000])
        return 0
    try:
        return main_check(a.prop, tier, seed)
    except HarnessError as e:
        print('INCONCLUSIVE property=%s reason=harness error: %s' % (a.prop, e))
        return 2


if __name__ == '__main__':
    sys.exit(main())
