"""Executable reference models (DESIGN 2.2).  Deliberately naive, written from
the documentation and the property texts; they never call the petl function
they judge."""
from __future__ import annotations

from collections import Counter

from petlmon import gen, util


def square(table, missing=None):
    """rows trimmed / padded to the header's length (what stack() documents)"""
    hdr = list(table[0])
    n = len(hdr)
    rows = []
    for r in table[1:]:
        r = tuple(r)[:n]
        rows.append(r + (missing,) * (n - len(r)))
    return hdr, rows


def keytuple(row, idx):
    return tuple(row[i] if i < len(row) else None for i in idx)


def key_eq(a, b):
    return util.model_cmp(a, b) == 0


def join_header(lhdr, rhdr, rkidx, lprefix=None, rprefix=None):
    rv = [i for i in range(len(rhdr)) if i not in rkidx]
    out = [f if lprefix is None else str(lprefix) + str(f) for f in lhdr]
    out += [rhdr[i] if rprefix is None else str(rprefix) + str(rhdr[i]) for i in rv]
    return out, rv


def natural_key(lhdr, rhdr):
    lf = [str(f) for f in lhdr]
    rf = [str(f) for f in rhdr]
    return [f for f in lf if f in rf]


def ref_join(op, left, right, lkey, rkey, missing=None, lprefix=None, rprefix=None):
    """-> (header, list of rows).  op in join/leftjoin/rightjoin/outerjoin/lookupjoin.
    Rows in reference order: by left row then right row; unmatched right rows last."""
    lhdr, lrows = square(left, missing)
    rhdr, rrows = square(right, missing)
    lk = gen.resolve_key(lhdr, lkey)
    rk = gen.resolve_key(rhdr, rkey)
    outhdr, rv = join_header(lhdr, rhdr, rk, lprefix, rprefix)
    out = []
    matched_r = set()
    for lrow in lrows:
        lkv = keytuple(lrow, lk)
        partners = [j for j, rrow in enumerate(rrows) if key_eq(lkv, keytuple(rrow, rk))]
        if partners:
            if op == 'lookupjoin':
                partners = partners[:1]
            for j in partners:
                matched_r.add(j)
                out.append(tuple(lrow) + tuple(rrows[j][i] for i in rv))
        elif op in ('leftjoin', 'outerjoin', 'lookupjoin'):
            out.append(tuple(lrow) + (missing,) * len(rv))
    if op in ('rightjoin', 'outerjoin'):
        for j, rrow in enumerate(rrows):
            rkv = keytuple(rrow, rk)
            if not any(key_eq(keytuple(lrow, lk), rkv) for lrow in lrows):
                o = [missing] * len(lhdr)
                for li, ri in zip(lk, rk):
                    o[li] = rrow[ri]
                out.append(tuple(o) + tuple(rrow[i] for i in rv))
    return outhdr, out


def ref_antijoin(left, right, lkey, rkey):
    lhdr = list(left[0])
    rhdr = list(right[0])
    lk = gen.resolve_key(lhdr, lkey)
    rk = gen.resolve_key(rhdr, rkey)
    rkeys = [keytuple(r, rk) for r in right[1:]]
    out = []
    for lrow in left[1:]:
        kv = keytuple(lrow, lk)
        if not any(key_eq(kv, x) for x in rkeys):
            out.append(tuple(lrow))
    return lhdr, out


def ref_crossjoin(tables, prefix=False, missing=None):
    hdr = []
    rows = [()]
    for i, t in enumerate(tables):
        h, r = square(t, missing)
        hdr.extend([('%d_%s' % (i + 1, f)) if prefix else f for f in h])
        rows = [a + b for a in rows for b in r]
    return hdr, rows


def multiset(rows):
    return Counter(util.crow(r) for r in rows)


def multiset_loose(rows):
    """multiset under the model's equivalence on cells is too weak for outputs;
    outputs must carry the very cells of the inputs, so type-strict it is"""
    return multiset(rows)


def ascending(keys, reverse=False):
    for a, b in zip(keys, keys[1:]):
        c = util.model_cmp(a, b)
        if (c > 0 and not reverse) or (c < 0 and reverse):
            return False
    return True


def merge_mode(lkeys, rkeys):
    """which way the two key-sorted group streams run out in a two-pointer
    merge (lkeys / rkeys: model-sorted lists of *distinct* group keys)"""
    if not lkeys and not rkeys:
        return 'both-empty'
    if not lkeys:
        return 'left-empty'
    if not rkeys:
        return 'right-empty'
    i = j = 0
    last = None
    while True:
        c = util.model_cmp(lkeys[i], rkeys[j])
        if c < 0:
            i += 1
            last = 'mismatch'
            if i == len(lkeys):
                return 'left-ends-first-after-mismatch'
        elif c > 0:
            j += 1
            last = 'mismatch'
            if j == len(rkeys):
                return 'right-ends-first-after-mismatch'
        else:
            i += 1
            j += 1
            last = 'match'
            if i == len(lkeys) and j == len(rkeys):
                return 'both-end-on-match'
            if i == len(lkeys):
                return 'left-ends-first-after-match'
            if j == len(rkeys):
                return 'right-ends-first-after-match'


def distinct_sorted_keys(rows, idx):
    ks = []
    for r in rows:
        k = keytuple(r, idx)
        if not any(key_eq(k, x) for x in ks):
            ks.append(k)
    return sorted(ks, key=util.model_key)
