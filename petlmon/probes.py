"""Instrumentation attached from the harness process (no source hooks needed):
instrumented sources, mutation guards, comparison spy, temp-file audit,
sqlite statement trace."""
from __future__ import annotations

import os
import sys
import tempfile
import traceback


class InjectedFault(Exception):
    """the private exception type raised by instrumented sources / callables"""


# private subclasses of the exception families a failing source or callable realistically raises: an except
# clause inside petl that is too wide (or meant for something else) cannot hide behind one exception type
FAULT_TYPES = {'InjectedFault': InjectedFault}
for _b in (TypeError, ValueError, KeyError, IndexError, AttributeError, RuntimeError, OSError, UnicodeError, ArithmeticError, LookupError,
           AssertionError, NotImplementedError, EOFError, MemoryError):
    FAULT_TYPES[_b.__name__] = type('Injected' + _b.__name__, (_b,), {})


# ---------------------------------------------------------------------------
# sources

class CountingSource(object):
    """table container that counts iter() calls, header pulls and data-row pulls.
    rows is a list of rows (header first) or a callable n -> row for huge tables."""

    def __init__(self, rows=None, header=None, nrows=None, rowfn=None):
        self.rows = rows
        self.header = header
        self.nrows = nrows
        self.rowfn = rowfn
        self.iter_calls = 0
        self.header_pulls = 0
        self.data_pulls = 0
        self.exhausted = 0
        self.fail_next_at = None      # one-shot: the next iteration raises InjectedFault instead of yielding this row index

    def reset(self):
        self.iter_calls = self.header_pulls = self.data_pulls = self.exhausted = 0

    def __iter__(self):
        self.iter_calls += 1
        return self._gen()

    def _gen(self):
        fail_at, self.fail_next_at = self.fail_next_at, None
        if self.rows is not None:
            it = iter(self.rows)
            for i, r in enumerate(it):
                if fail_at is not None and i == fail_at:
                    raise InjectedFault('source failed at row %d' % i)
                if i == 0:
                    self.header_pulls += 1
                else:
                    self.data_pulls += 1
                yield r
        else:
            self.header_pulls += 1
            yield self.header
            for i in range(self.nrows):
                self.data_pulls += 1
                yield self.rowfn(i)
        self.exhausted += 1

    def counts(self):
        return (self.iter_calls, self.header_pulls, self.data_pulls)


class FailingSource(object):
    """yields rows[0..fail_at-1] then raises InjectedFault instead of yielding
    rows[fail_at] (0 = the header).  fail_at == len(rows) raises at exhaustion,
    fail_at is None never fails.  Every iterator fails at the same place unless
    only_pass is given (1-based pass number that fails)."""

    def __init__(self, rows, fail_at=None, only_pass=None, exc=None):
        self.rows = rows
        self.fail_at = fail_at
        self.only_pass = only_pass
        self.exc = exc or InjectedFault
        self.passes = 0
        self.raised = 0

    def __iter__(self):
        self.passes += 1
        return self._gen(self.passes)

    def _gen(self, p):
        active = self.fail_at is not None and (self.only_pass is None or self.only_pass == p)
        for i, r in enumerate(self.rows):
            if active and i == self.fail_at:
                self.raised += 1
                raise self.exc('source failed at row %d' % i)
            yield r
        if active and self.fail_at == len(self.rows):
            self.raised += 1
            raise self.exc('source failed at exhaustion')


# ---------------------------------------------------------------------------
# mutation guards (module level so that pickle can find them; __reduce_ex__
# returns a plain list/dict so copies are ordinary objects - DESIGN 2.1)

GUARD_LOG = []
_GUARD_ON = [True]


def _log(kind, name):
    if _GUARD_ON[0]:
        st = traceback.extract_stack(limit=6)[:-2]
        GUARD_LOG.append((kind, name, ['%s:%d:%s' % (f.filename.rsplit('/petl/', 1)[-1], f.lineno, f.name) for f in st][-3:]))


def _guarded(base, kind, names):
    ns = {}
    for n in names:
        def mk(n):
            orig = getattr(base, n)

            def method(self, *a, **k):
                _log(kind, n)
                return orig(self, *a, **k)
            method.__name__ = n
            return method
        ns[n] = mk(n)
    return ns


class GuardedList(list):
    __slots__ = ()
    locals().update(_guarded(list, 'list', ['append', 'extend', 'insert', 'pop', 'remove', 'clear', 'sort', 'reverse',
                                             '__setitem__', '__delitem__', '__iadd__', '__imul__']))

    def __reduce_ex__(self, proto):
        return (list, (list(self),))

    def __copy__(self):
        return list(self)

    def __deepcopy__(self, memo):
        import copy
        return [copy.deepcopy(x, memo) for x in self]


class GuardedDict(dict):
    __slots__ = ()
    locals().update(_guarded(dict, 'dict', ['__setitem__', '__delitem__', 'pop', 'popitem', 'clear', 'update', 'setdefault']))

    def __reduce_ex__(self, proto):
        return (dict, (dict(self),))

    def __deepcopy__(self, memo):
        import copy
        return {copy.deepcopy(k, memo): copy.deepcopy(v, memo) for k, v in self.items()}


def guard(obj):
    """deep-wrap lists and dicts (tuples are rebuilt with guarded members)"""
    if isinstance(obj, list):
        return GuardedList(guard(x) for x in obj)
    if isinstance(obj, tuple):
        return tuple(guard(x) for x in obj)
    if isinstance(obj, dict):
        return GuardedDict((k, guard(v)) for k, v in obj.items())
    return obj


class guard_paused(object):
    def __enter__(self):
        self.prev = _GUARD_ON[0]
        _GUARD_ON[0] = False

    def __exit__(self, *a):
        _GUARD_ON[0] = self.prev


# ---------------------------------------------------------------------------
# comparison spy: every Comparable.__lt__/__eq__ petl performs becomes an event

class ComparableSpy(object):
    def __init__(self, sink, limit=None):
        self.sink = sink          # callable(op, a_inner, b_inner_or_raw, result)
        self.installed = False

    def __enter__(self):
        from petl.comparison import Comparable
        self.C = Comparable
        self.orig_lt = Comparable.__lt__
        self.orig_eq = Comparable.__eq__
        sink = self.sink
        orig_lt, orig_eq = self.orig_lt, self.orig_eq

        def lt(s, o):
            r = orig_lt(s, o)
            sink('lt', s.inner, o.inner if isinstance(o, Comparable) else o, r)
            return r

        def eq(s, o):
            r = orig_eq(s, o)
            sink('eq', s.inner, o.inner if isinstance(o, Comparable) else o, r)
            return r
        Comparable.__lt__ = lt
        Comparable.__eq__ = eq
        self.installed = True
        return self

    def __exit__(self, *a):
        self.C.__lt__ = self.orig_lt
        self.C.__eq__ = self.orig_eq
        self.installed = False


# ---------------------------------------------------------------------------
# temp-file audit: ledger created - removed = live, plus a private tempdir

class TempAudit(object):
    _installed = False
    _active = None

    def __init__(self):
        self.created = []
        self.removed = []
        self.dir = None

    @classmethod
    def _hook(cls, event, args):
        a = cls._active
        if a is None:
            return
        if event in ('os.remove', 'os.unlink') or event == 'os.rmdir':
            p = args[0]
            if isinstance(p, bytes):
                p = p.decode('utf-8', 'replace')
            if isinstance(p, str) and a.dir and p.startswith(a.dir):
                a.removed.append(p)
        elif event == 'tempfile.mkstemp':
            p = args[0]
            if isinstance(p, str) and a.dir and p.startswith(a.dir):
                a.created.append(p)

    def __enter__(self):
        if not TempAudit._installed:
            sys.addaudithook(TempAudit._hook)
            TempAudit._installed = True
        self.dir = tempfile.mkdtemp(prefix='petlmon-tmp-')
        self.saved = tempfile.tempdir
        tempfile.tempdir = self.dir
        TempAudit._active = self
        return self

    def live(self):
        return sorted(set(self.created) - set(self.removed))

    def listing(self):
        out = []
        for base, dirs, files in os.walk(self.dir):
            for f in files:
                out.append(os.path.join(base, f))
        return sorted(out)

    def __exit__(self, *a):
        TempAudit._active = None
        tempfile.tempdir = self.saved
        import shutil
        shutil.rmtree(self.dir, ignore_errors=True)


# ---------------------------------------------------------------------------
# sqlite statement trace

class SqlTrace(object):
    """wraps sqlite3.connect (petl looks it up at call time) so every
    connection reports its statements"""

    def __init__(self):
        self.log = []

    def __enter__(self):
        import sqlite3
        self.sqlite3 = sqlite3
        self.orig = sqlite3.connect
        log = self.log
        orig = self.orig

        def connect(*a, **k):
            c = orig(*a, **k)
            c.set_trace_callback(lambda s: log.append(s))
            return c
        sqlite3.connect = connect
        return self

    def connect(self, *a, **k):
        c = self.orig(*a, **k)
        c.set_trace_callback(lambda s: self.log.append(s))
        return c

    def __exit__(self, *a):
        self.sqlite3.connect = self.orig


# ---------------------------------------------------------------------------
# argument ledger: which public petl functions the check called, and with which keyword arguments

KEYWORD_FORM = [False, 0, 0]      # [False / 'kw' / 'pos' for the current case, calls rewritten to keyword form, ... to positional form]


def _load_signatures():
    import json
    import os
    p = os.path.join(os.path.dirname(os.path.abspath(__file__)), 'signatures.json')
    try:
        with open(p) as f:
            return json.load(f)
    except (OSError, ValueError):
        return {}


SIGNATURES = _load_signatures()


def _literal(r):
    import ast
    return ast.literal_eval(r)


class ArgLedger(object):
    """wraps the functions in the `petl` namespace (the names the checks call through) so that every call from the harness is
    counted together with the keyword arguments it passed; calls inside petl bind the original functions and are not counted"""

    TABLE_PARAMS = ('table', 'tables', 'a', 'b', 'left', 'right', 'source', 'dbo', 'inner', 'tbl')

    def __init__(self):
        self.calls = {}
        self.kwargs = {}
        self.shapes = {}
        self._saved = {}

    @staticmethod
    def shape(v, depth=0):
        """a coarse class of an argument value: which *form* of the argument was used (a name, an index, index 0, a negative
        number, a one-element sequence, a callable, ...), not its content"""
        if v is None:
            return 'None'
        if isinstance(v, bool):
            return 'bool'
        if isinstance(v, int):
            return 'int:0' if v == 0 else ('int:neg' if v < 0 else 'int:pos')
        if isinstance(v, float):
            return 'float'
        if isinstance(v, str):
            return 'str' if v else 'str:empty'
        if isinstance(v, bytes):
            return 'bytes'
        if isinstance(v, (list, tuple)):
            n = len(v)
            kind = type(v).__name__ if type(v) in (list, tuple) else 'seq'
            if depth >= 1 or n == 0:
                return '%s[%s]' % (kind, '0' if n == 0 else ('1' if n == 1 else '2+'))
            inner = sorted({ArgLedger.shape(x, depth + 1) for x in v[:6]})
            return '%s[%s](%s)' % (kind, '1' if n == 1 else '2+', '|'.join(inner))
        if isinstance(v, dict):
            return 'dict' if v else 'dict:empty'
        if isinstance(v, (set, frozenset)):
            return 'set'
        if callable(v):
            return 'callable'
        return type(v).__name__

    def install(self):
        import inspect
        import petl
        calls, kwargs, shapes = self.calls, self.kwargs, self.shapes
        shape, skip = self.shape, self.TABLE_PARAMS
        for name, fn in list(vars(petl).items()):
            if name.startswith('_') or not inspect.isfunction(fn) or not getattr(fn, '__module__', '').startswith('petl.'):
                continue
            code = getattr(fn, '__code__', None)
            pnames = code.co_varnames[:code.co_argcount] if code is not None else ()

            varargs = bool(code is not None and code.co_flags & 0x04)

            def mk(name, fn, pnames=pnames, varargs=varargs):
                doc = SIGNATURES.get(name)

                def wrapper(*a, **k):
                    if KEYWORD_FORM[0] == 'pos' and k and doc is not None and not doc['varargs'] and not varargs:
                        # the same call written positionally, in the documented order of the parameters (the snapshot taken from
                        # the unchanged tree); parameters skipped on the way get their documented default
                        P, D = doc['params'], doc['defaults']
                        given = [P.index(x) for x in k if x in P]
                        if given and len(a) <= min(given):
                            newa, ok = list(a), True
                            for idx in range(len(a), max(given) + 1):
                                pn = P[idx]
                                if pn in k:
                                    newa.append(k[pn])
                                elif pn in D:
                                    newa.append(_literal(D[pn]))
                                else:
                                    ok = False
                                    break
                            if ok:
                                k = {x: v for x, v in k.items() if x not in P}
                                a = tuple(newa)
                                KEYWORD_FORM[2] += 1
                    elif KEYWORD_FORM[0] == 'kw' and len(a) > 1 and not varargs and len(a) <= len(pnames):
                        # the same call with every argument after the first bound by name: by Python's own rules it means the same
                        k = dict(k)
                        for i_ in range(1, len(a)):
                            k[pnames[i_]] = a[i_]
                        a = a[:1]
                        KEYWORD_FORM[1] += 1
                    calls[name] = calls.get(name, 0) + 1
                    if k:
                        d = kwargs.setdefault(name, {})
                        for kk in k:
                            d[kk] = d.get(kk, 0) + 1
                    sh = shapes.setdefault(name, {})
                    for i, v in enumerate(a):
                        pn = pnames[i] if i < len(pnames) else '*%d' % (i - len(pnames))
                        if i == 0 or pn in skip:
                            continue
                        sh.setdefault(pn, set()).add(shape(v))
                    for kk, v in k.items():
                        if kk not in skip:
                            sh.setdefault(kk, set()).add(shape(v))
                    return fn(*a, **k)
                wrapper.__name__ = getattr(fn, '__name__', name)
                wrapper.__doc__ = fn.__doc__
                wrapper.__wrapped__ = fn
                return wrapper
            self._saved[name] = fn
            setattr(petl, name, mk(name, fn))

    def remove(self):
        import petl
        for name, fn in self._saved.items():
            setattr(petl, name, fn)
        self._saved = {}

    def dump(self):
        return {'calls': dict(self.calls), 'kwargs': {k: dict(v) for k, v in self.kwargs.items()},
                'shapes': {fn: {p: sorted(v) for p, v in d.items()} for fn, d in self.shapes.items()}}


# ---------------------------------------------------------------------------

def selftest():
    """every probe must fire on a deliberate stimulus; otherwise the run is
    inconclusive rather than silently blind"""
    import pickle
    import copy
    from petlmon.run import HarnessError
    del GUARD_LOG[:]
    g = guard([['a', 'b'], [1, [2, 3]]])
    g[1].append(9)
    g[1][1][0] = 7
    if len(GUARD_LOG) != 2:
        raise HarnessError('guard self-test: expected 2 events, got %r' % (GUARD_LOG,))
    del GUARD_LOG[:]
    p = pickle.loads(pickle.dumps(g, -1))
    c = copy.deepcopy(g)
    if GUARD_LOG or type(p) is not list or type(c) is not list or type(p[1]) is not list:
        raise HarnessError('guard self-test: copies are guarded or logged: %r' % (GUARD_LOG,))
    s = CountingSource([['x'], [1], [2]])
    it = iter(s)
    next(it)
    next(it)
    if s.counts() != (1, 1, 1):
        raise HarnessError('CountingSource self-test: %r' % (s.counts(),))
    f = FailingSource([['x'], [1], [2]], 2)
    got = []
    try:
        for r in f:
            got.append(r)
        raise HarnessError('FailingSource did not fail')
    except InjectedFault:
        pass
    if got != [['x'], [1]]:
        raise HarnessError('FailingSource self-test: %r' % (got,))
    with TempAudit() as ta:
        fd, path = tempfile.mkstemp()
        os.close(fd)
        if ta.live() != [path] or ta.listing() != [path]:
            raise HarnessError('TempAudit self-test (create): %r %r' % (ta.live(), ta.listing()))
        os.remove(path)
        if ta.live() or ta.listing():
            raise HarnessError('TempAudit self-test (remove)')
    ev = []
    with ComparableSpy(lambda *a: ev.append(a)):
        from petl.comparison import Comparable
        Comparable(1) < Comparable('a')
        Comparable(1) == Comparable(1.0)
    if [e[0] for e in ev] != ['lt', 'eq']:
        raise HarnessError('ComparableSpy self-test: %r' % (ev,))
    from petl.comparison import Comparable
    if Comparable.__lt__.__name__ != '__lt__':
        raise HarnessError('ComparableSpy not removed')
    with SqlTrace() as st:
        import sqlite3
        c = sqlite3.connect(':memory:')
        c.execute('create table t (a)')
        c.execute('insert into t values (1)')
        c.commit()
        c.close()
    if not any('INSERT' in s.upper() for s in st.log) or not any(s.upper().startswith('COMMIT') for s in st.log):
        raise HarnessError('SqlTrace self-test: %r' % (st.log,))
    return True
