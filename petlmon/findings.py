"""Known findings: genuine petl defects that are recorded rather than repaired.

known_findings.json is the committed list.  An *open* entry names a classifier
below; a violation is attributed to the finding only if the classifier matches
the *mechanism* (operator, argument shape, failure signature), never a case
hash or a random value.  Anything the classifiers do not match stays a
VIOLATION.  'fixed' entries suppress nothing.  Nothing is ever written to the
file at run time.
"""
from __future__ import annotations

import json
import os

_HERE = os.path.dirname(os.path.dirname(os.path.abspath(__file__)))
_PATH = os.path.join(_HERE, 'known_findings.json')

CLASSIFIERS = {}


def classifier(fid):
    def deco(fn):
        CLASSIFIERS[fid] = fn
        return fn
    return deco


def _load():
    try:
        with open(_PATH) as f:
            return json.load(f)
    except FileNotFoundError:
        return {'open': [], 'fixed': []}


_DATA = _load()
_OPEN = {e['id']: e for e in _DATA.get('open', [])}


def classify(prop, case, violation):
    for fid, e in _OPEN.items():
        if prop not in e.get('properties', []):
            continue
        fn = CLASSIFIERS.get(e.get('classifier', fid))
        if fn is None:
            continue
        try:
            if fn(prop, case, violation):
                return fid
        except Exception:
            continue
    return None


def describe(fid):
    e = _OPEN.get(fid, {})
    return '%s: %s' % (fid, e.get('what', '?'))


# ---------------------------------------------------------------------------
# classifiers (mechanism-keyed).  `case` is the plain-data case dict of the
# check, `v` the violation dict produced by its judge.

@classifier('F10')
def _f10(prop, case, v):
    # dummytable reseeds and draws from the process-wide RNG (its field
    # callables are bound to the global `random` functions by API): two live
    # iterators disturb each other.  Only this constructor, and only a value
    # mismatch in rows of the right shape (never an exception or a length
    # change).  randomtable had the same defect and was repaired.
    # The defect needs *interleaved stepping*: the RNG is reseeded at an
    # iterator's first step, so iterators consumed one after the other (and
    # fresh passes) are unaffected; a divergence without interleaving is not
    # this finding.
    return (prop == 'C01' and case.get('view') == 'x:dummytable'
            and v.get('kind') == 'iterator-diverged'
            and v.get('steps-interleaved-with-another-iterator') is True
            and v.get('shape_ok', False))


@classifier('F12')
def _f12(prop, case, v):
    # groupselectmin/max(presorted=True): the inner sort by value destroys
    # the key order that presorted=True then assumes.
    return (prop in ('C11', 'C09') and case.get('op') in ('groupselectmin', 'groupselectmax')
            and case.get('presorted') is True and v.get('kind') in ('strategy-differs', 'output-differs'))


@classifier('F13')
def _f13(prop, case, v):
    # append* with a BOM-emitting encoding onto a compressed target writes a
    # second BOM in mid-stream: the new gzip member / bz2 stream reports
    # position 0 (or is not seekable), so the text wrapper starts afresh.
    # Keyed on: csv/tsv, >= 1 append, BOM encoding, gz or bz2 target, and a
    # BOM character (or the codec's BOM complaint) in what was observed.
    if prop != 'C15' or case.get('fmt') not in ('csv', 'tsv') or not v.get('appends'):
        return False
    if v.get('encoding') not in ('utf-16', 'utf-32', 'utf-8-sig') or v.get('source') not in ('gz', 'bz2'):
        return False
    if v.get('kind') not in ('append-bytes-differ', 'append-roundtrip-differs', 'exception'):
        return False
    if v.get('differs-only-in-byte-order-marks') is not True:
        return False          # the file must hold exactly the expected text apart from byte-order marks
    text = repr(v)
    return '\\ufeff' in text or '\ufeff' in text or 'BOM' in text or 'xff\\xfe' in text


@classifier('F18')
def _f18(prop, case, v):
    # valuecount(table, field, value) divides the count by the number of rows:
    # ZeroDivisionError on a table without data rows.  Only this function,
    # only that exception.
    return (prop == 'C20' and case.get('op') == 'valuecount' and v.get('kind') == 'exception'
            and 'ZeroDivisionError' in str(v.get('detail')))


@classifier('F17')
def _f17(prop, case, v):
    # csv/tsv written to a .bz2 target with utf-16 / utf-32 carries no BOM
    # (io.TextIOWrapper omits the BOM on a non-seekable stream, and BZ2File is
    # not seekable for writing), so reading back with the same encoding fails.
    if prop != 'C15' or case.get('fmt') not in ('csv', 'tsv'):
        return False
    if v.get('source') != 'bz2' or v.get('encoding') not in ('utf-16', 'utf-32'):
        return False
    if v.get('differs-only-in-byte-order-marks') is not True:
        return False
    if v.get('kind') == 'roundtrip-differs':
        # no BOM was written, and the text happens to begin with U+FEFF (the first cell's first character): the reader
        # takes that character for the BOM it expects
        return v.get('only-the-leading-U+FEFF-of-the-first-cell-is-lost') is True
    return (v.get('kind') == 'exception' and 'does not start with BOM' in str(v.get('detail'))) or \
        (v.get('kind') in ('file-not-decodable', 'append-bytes-differ') and 'BOM' in repr(v))


@classifier('F16')
def _f16(prop, case, v):
    # mergesort sorts every input *before* standardising it to the output
    # header.  Whenever standardisation changes the key of a row, the row is
    # merged at the wrong place: (A) a short row whose key cell is missing is
    # sorted as None but then padded with a non-None `missing`; (B) with
    # key=None the whole-row key follows each input's own field order, which
    # differs from the output header's.
    if prop != 'C05' or case.get('kind') != 'mergesort' or not str(v.get('kind', '')).startswith('mergesort-differs'):
        return False
    if 'Raised' in str(v.get('observed', ''))[:8]:
        return False
    tables, key, missing = case['tables'], case['key'], case['missing']
    hdrs = [[str(f) for f in t[0]] for t in tables]
    if case.get('header') is not None:
        outhdr = list(case['header'])
    else:
        outhdr = []
        for h in hdrs:
            for f in h:
                if f not in outhdr:
                    outhdr.append(f)
    precondition = False
    if key is None:
        if any(h != outhdr for h in hdrs):
            precondition = True
        keyfields = outhdr
    else:
        keyfields = [(outhdr[k] if isinstance(k, int) and not isinstance(k, bool) and k < len(outhdr) else k)
                     for k in (list(key) if isinstance(key, (list, tuple)) else [key])]
    if missing is not None and not precondition:
        for h, t in zip(hdrs, tables):
            pos = [h.index(f) for f in keyfields if f in h]
            if len(pos) < len(keyfields):
                precondition = True   # a key field this input does not have at all is filled with `missing`
            for r in t[1:]:
                if any(p >= len(r) for p in pos):
                    precondition = True
    if not precondition:
        return False
    # ... and the observed sequence must be exactly what this mechanism produces (sort each input by its own key, standardise,
    # then merge the heads by the standardised key, first minimal head first): any other wrong order is not this finding
    try:
        return _f16_predict(case, outhdr, hdrs) == _crows(v.get('observed'))
    except Exception:
        return False


def _crows(rows):
    from petlmon import util
    return util.crows(rows) if isinstance(rows, list) else None


def _f16_predict(case, outhdr, hdrs):
    from petlmon import gen, util
    tables, key, missing, reverse = case['tables'], case['key'], case['missing'], case['reverse']
    streams = []
    for h, t in zip(hdrs, tables):
        rows = [tuple(r) for r in t[1:]]
        # (with presorted=True the check hands over inputs it has sorted this same way itself)
        idx = gen.resolve_key(h, key) if key is not None else list(range(len(h)))
        rows = util.model_sorted(rows, lambda r: gen.keyval(r, idx), reverse)
        std = [tuple((r[h.index(f)] if (f in h and h.index(f) < len(r)) else missing) for f in outhdr) for r in rows]
        streams.append(std)
    oidx = gen.resolve_key(outhdr, key) if key is not None else list(range(len(outhdr)))
    heads = [s for s in streams if s]
    pos = [0] * len(heads)
    out = [tuple(outhdr)]
    while heads:
        best = 0
        for j in range(1, len(heads)):
            c = util.model_cmp(gen.keyval(heads[j][pos[j]], oidx), gen.keyval(heads[best][pos[best]], oidx))
            if (c > 0) if reverse else (c < 0):
                best = j
        out.append(heads[best][pos[best]])
        pos[best] += 1
        if pos[best] == len(heads[best]):
            del heads[best]
            del pos[best]
    return util.crows(out)
