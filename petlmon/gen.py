"""Seeded generators of values, tables and keys (DESIGN 2.4)."""
from __future__ import annotations

import datetime
from decimal import Decimal

D = datetime.date
DT = datetime.datetime
T = datetime.time

# the full value pool of the supported domain (no NaN)
POOL = [
    None, False, True, 0, 1, 2, -1, 1.0, 2.5, -0.5, Decimal('1'), Decimal('2.5'),
    b'a', b'', b'b', '', 'a', 'b', 'B', 'ab',
    D(2020, 1, 1), D(2021, 6, 15), DT(2020, 1, 1, 0, 0), DT(2020, 1, 1, 12, 30), T(0, 0), T(12, 30),
    (1, 2), (1, None), (), ('a',), [1], [1, 2], ('a', (1,)), [None],
]
HASHABLE_POOL = [v for v in POOL if not isinstance(v, list) and v != ('a', (1,)) or v == ('a', (1,))]
HASHABLE_POOL = [v for v in HASHABLE_POOL if not isinstance(v, list)]
SCALAR_POOL = [v for v in POOL if not isinstance(v, (list, tuple))]
# a small pool where collisions dominate, with equal-but-different-type members
KEY_POOL = [None, 1, 1.0, True, 2, 'a', 'b', b'a', D(2020, 1, 1), (1, 2), 0, False, '', ()]      # falsy keys (0, False, '', ()) included
SMALL_KEYS = [None, 1, 2, 'a', 3]
TEXT_POOL = ['', 'a', 'b', 'ab', 'B', 'x y', 'é', '1', '2.5', 'None']


def value(rng, pool=POOL):
    return pool[rng.randrange(len(pool))]


def fieldnames(n, prefix='f'):
    return [prefix + str(i) for i in range(n)]


def table(rng, nrows=None, nfields=None, pool=POOL, ragged=0.0, ids=False, header=None,
          maxrows=6, maxfields=3, minrows=0, aslist=True):
    """header + rows.  ids=True appends a unique 'id' cell to every row so
    histories are unambiguous.  ragged = probability that a row is shortened or
    lengthened."""
    if nfields is None:
        nfields = rng.randint(1, maxfields)
    if nrows is None:
        nrows = rng.randint(minrows, maxrows)
    if header is None:
        header = fieldnames(nfields)
    hdr = list(header) + (['id'] if ids else [])
    rows = []
    for i in range(nrows):
        row = [value(rng, pool) for _ in range(nfields)]
        if ids:
            row.append('r%d' % i)
        if ragged and rng.random() < ragged:
            if rng.random() < 0.7 and len(row) > 0:
                row = row[:rng.randrange(0, len(row))]
            else:
                row = row + [value(rng, pool)]
        rows.append(row)
    t = [hdr] + rows
    if not aslist:
        t = tuple(tuple(r) for r in t)
    return t


def keyspec(rng, header, allow_none=True, allow_index=True, maxlen=2):
    """a key argument for sort-like functions: None, name, index, tuple/list of them"""
    n = len(header)
    r = rng.random()
    if allow_none and r < 0.15:
        return None
    k = 1 if (r < 0.7 or n < 2) else rng.randint(2, min(maxlen, n))
    idx = rng.sample(range(n), k)

    def form(i):
        if allow_index and rng.random() < 0.3:
            return i
        return header[i]
    if k == 1 and rng.random() < 0.8:
        return form(idx[0])
    spec = [form(i) for i in idx]
    return tuple(spec) if rng.random() < 0.5 else spec


def resolve_key(header, key):
    """documented field resolution: an int below the header length is an
    index, otherwise the field name; -> list of indices (None = whole row)"""
    if key is None:
        return None
    if not isinstance(key, (list, tuple)):
        key = (key,)
    out = []
    for k in key:
        if isinstance(k, int) and not isinstance(k, bool) and k < len(header):
            out.append(k)
        else:
            out.append(list(header).index(k))
    return out


def keyval(row, idx):
    """key value of a row with None for missing cells (documented for sort)"""
    if idx is None:
        return tuple(row)
    vals = [row[i] if i < len(row) else None for i in idx]
    return vals[0] if len(vals) == 1 else tuple(vals)


def compositions(n):
    """all compositions of n into positive parts"""
    if n == 0:
        yield []
        return
    for first in range(1, n + 1):
        for rest in compositions(n - first):
            yield [first] + rest
